package model

import (
	"fmt"
	"strconv"
	"strings"
)

// ---------------------------------------------------------------- AST

// Expr is a condition-level or operand-level expression node.
type Expr interface{ isExpr() }

// PathElem is one step of a document path: a name (possibly an #alias) or a
// list index.
type PathElem struct {
	Name    string `json:"n,omitempty"` // raw token: attr or #alias
	Index   int    `json:"i,omitempty"`
	IsIndex bool   `json:"x,omitempty"`
}

// Path is a document path. Elems[0] is always a name.
type Path struct{ Elems []PathElem }

// ValueRef is a :value placeholder.
type ValueRef struct{ Name string }

// Cmp is a comparison  L op R with op in = <> < <= > >=.
type Cmp struct {
	Op   string
	L, R Expr
}

// Between is V BETWEEN Lo AND Hi.
type Between struct{ V, Lo, Hi Expr }

// In is V IN (List...).
type In struct {
	V    Expr
	List []Expr
}

// Logic is L AND R / L OR R.
type Logic struct {
	Op   string // "AND" | "OR"
	L, R Expr
}

// Not is NOT X.
type Not struct{ X Expr }

// Func is a function call.
type Func struct {
	Name string
	Args []Expr
}

// Paren is an explicitly parenthesised expression (kept for rendering only).
type Paren struct{ X Expr }

// Arith is L + R / L - R (update expressions only).
type Arith struct {
	Op   string
	L, R Expr
}

func (Path) isExpr()     {}
func (ValueRef) isExpr() {}
func (Cmp) isExpr()      {}
func (Between) isExpr()  {}
func (In) isExpr()       {}
func (Logic) isExpr()    {}
func (Not) isExpr()      {}
func (Func) isExpr()     {}
func (Paren) isExpr()    {}
func (Arith) isExpr()    {}

// Action is one update action.
type Action struct {
	Path  Path
	Value Expr // SET: operand expr; ADD/DELETE: operand; REMOVE: nil
}

// Clause is one SET/REMOVE/ADD/DELETE clause.
type Clause struct {
	Kind    string
	Actions []Action
}

// Update is a whole update expression.
type Update struct{ Clauses []Clause }

// P builds a path from "a.b[2].#c"-style text (generator convenience; panics
// on malformed input).
func P(s string) Path {
	toks, err := lex(s)
	if err != nil {
		panic(err)
	}
	p := &parser{toks: toks}
	path, perr := p.parsePath()
	if perr != nil || p.peek().kind != tEOF {
		panic("bad path " + s)
	}
	return path
}

// ---------------------------------------------------------------- rendering

func (p Path) String() string {
	var sb strings.Builder
	for i, e := range p.Elems {
		if e.IsIndex {
			sb.WriteString("[" + strconv.Itoa(e.Index) + "]")
			continue
		}
		if i > 0 {
			sb.WriteString(".")
		}
		sb.WriteString(e.Name)
	}
	return sb.String()
}

func prec(e Expr) int {
	switch x := e.(type) {
	case Logic:
		if x.Op == "OR" {
			return 1
		}
		return 2
	case Not:
		return 3
	case Cmp, Between, In:
		return 4
	}
	return 5
}

// Render renders an expression with the minimal parentheses needed.
func Render(e Expr) string {
	switch x := e.(type) {
	case Path:
		return x.String()
	case ValueRef:
		return x.Name
	case Cmp:
		return Render(x.L) + " " + x.Op + " " + Render(x.R)
	case Between:
		return Render(x.V) + " BETWEEN " + Render(x.Lo) + " AND " + Render(x.Hi)
	case In:
		parts := make([]string, len(x.List))
		for i, a := range x.List {
			parts[i] = Render(a)
		}
		return Render(x.V) + " IN (" + strings.Join(parts, ", ") + ")"
	case Logic:
		l, r := Render(x.L), Render(x.R)
		if prec(x.L) < prec(x) {
			l = "(" + l + ")"
		}
		// right operand: parenthesise at equal precedence too so that the
		// tree shape survives a round trip
		if prec(x.R) <= prec(x) {
			r = "(" + r + ")"
		}
		return l + " " + x.Op + " " + r
	case Not:
		s := Render(x.X)
		if prec(x.X) < 3 {
			s = "(" + s + ")"
		}
		return "NOT " + s
	case Func:
		parts := make([]string, len(x.Args))
		for i, a := range x.Args {
			parts[i] = Render(a)
		}
		return x.Name + "(" + strings.Join(parts, ", ") + ")"
	case Paren:
		return "(" + Render(x.X) + ")"
	case Arith:
		return Render(x.L) + " " + x.Op + " " + Render(x.R)
	case nil:
		return "<nil>"
	}
	return fmt.Sprintf("<?%T>", e)
}

// RenderUpdate renders an update expression.
func RenderUpdate(u Update) string {
	var parts []string
	for _, c := range u.Clauses {
		var acts []string
		for _, a := range c.Actions {
			switch c.Kind {
			case "SET":
				acts = append(acts, a.Path.String()+" = "+Render(a.Value))
			case "REMOVE":
				acts = append(acts, a.Path.String())
			default:
				acts = append(acts, a.Path.String()+" "+Render(a.Value))
			}
		}
		parts = append(parts, c.Kind+" "+strings.Join(acts, ", "))
	}
	return strings.Join(parts, " ")
}

// StripParens removes Paren nodes (for AST comparison).
func StripParens(e Expr) Expr {
	switch x := e.(type) {
	case Paren:
		return StripParens(x.X)
	case Cmp:
		return Cmp{x.Op, StripParens(x.L), StripParens(x.R)}
	case Between:
		return Between{StripParens(x.V), StripParens(x.Lo), StripParens(x.Hi)}
	case In:
		l := make([]Expr, len(x.List))
		for i, a := range x.List {
			l[i] = StripParens(a)
		}
		return In{StripParens(x.V), l}
	case Logic:
		return Logic{x.Op, StripParens(x.L), StripParens(x.R)}
	case Not:
		return Not{StripParens(x.X)}
	case Func:
		l := make([]Expr, len(x.Args))
		for i, a := range x.Args {
			l[i] = StripParens(a)
		}
		return Func{x.Name, l}
	case Arith:
		return Arith{x.Op, StripParens(x.L), StripParens(x.R)}
	}
	return e
}

// ---------------------------------------------------------------- lexer

type tokKind int

const (
	tEOF tokKind = iota
	tIdent        // bare name (may be keyword, decided by parser)
	tAlias        // #name
	tValue        // :name
	tNumber       // digits
	tOp           // = <> < <= > >=
	tLParen
	tRParen
	tLBracket
	tRBracket
	tComma
	tDot
	tPlus
	tMinus
)

type token struct {
	kind tokKind
	text string
	pos  int
}

// SyntaxError is a reference-parser rejection with a reason class.
type SyntaxError struct {
	Reason string // class, see Reason* constants
	Msg    string
}

func (e *SyntaxError) Error() string { return e.Reason + ": " + e.Msg }

// Rejection reason classes (C09 findings are keyed by these).
const (
	ReasonIllegalByte   = "illegal-byte"
	ReasonBadToken      = "malformed-token" // digit-leading name, embedded :/#, bare number, empty placeholder
	ReasonUnbalanced    = "unbalanced"
	ReasonDangling      = "dangling-operator"
	ReasonJuxtaposed    = "juxtaposed-tokens"
	ReasonEmpty         = "empty"
	ReasonNonBoolean    = "non-boolean-condition"
	ReasonBadFunction   = "bad-function"
	ReasonChainedCmp    = "chained-comparison"
	ReasonBadPath       = "bad-path"
	ReasonBadUpdate     = "bad-update-structure"
	ReasonOperandParen  = "parenthesised-operand"
	ReasonTooLong       = "too-long"
	ReasonValueAsPath   = "value-placeholder-where-a-path-is-required"
	ReasonPathAsValue   = "path-where-a-value-placeholder-is-required"
	ReasonBoolOperand   = "boolean-function-or-condition-used-as-operand"
)

func serr(reason, format string, a ...interface{}) *SyntaxError {
	return &SyntaxError{Reason: reason, Msg: fmt.Sprintf(format, a...)}
}

func isAlpha(c byte) bool  { return c >= 'a' && c <= 'z' || c >= 'A' && c <= 'Z' || c == '_' }
func isDigit(c byte) bool  { return c >= '0' && c <= '9' }
func isAlnum(c byte) bool  { return isAlpha(c) || isDigit(c) }
func isSpace(c byte) bool  { return c == ' ' || c == '\t' || c == '\n' || c == '\r' }

func lex(s string) ([]token, *SyntaxError) {
	var toks []token
	i := 0
	for i < len(s) {
		c := s[i]
		switch {
		case isSpace(c):
			i++
		case isAlpha(c):
			j := i
			for j < len(s) && isAlnum(s[j]) {
				j++
			}
			if j < len(s) && (s[j] == ':' || s[j] == '#') {
				return nil, serr(ReasonBadToken, "name with embedded %q at %d", s[j], j)
			}
			toks = append(toks, token{tIdent, s[i:j], i})
			i = j
		case c == '#' || c == ':':
			j := i + 1
			for j < len(s) && isAlnum(s[j]) {
				j++
			}
			if j == i+1 {
				return nil, serr(ReasonBadToken, "empty placeholder at %d", i)
			}
			if j < len(s) && (s[j] == ':' || s[j] == '#') {
				return nil, serr(ReasonBadToken, "placeholder with embedded %q at %d", s[j], j)
			}
			k := tAlias
			if c == ':' {
				k = tValue
			}
			toks = append(toks, token{k, s[i:j], i})
			i = j
		case isDigit(c):
			j := i
			for j < len(s) && isDigit(s[j]) {
				j++
			}
			if j < len(s) && (isAlpha(s[j]) || s[j] == ':' || s[j] == '#') {
				return nil, serr(ReasonBadToken, "digit-leading name at %d", i)
			}
			toks = append(toks, token{tNumber, s[i:j], i})
			i = j
		case c == '=':
			toks = append(toks, token{tOp, "=", i})
			i++
		case c == '<':
			if i+1 < len(s) && s[i+1] == '>' {
				toks = append(toks, token{tOp, "<>", i})
				i += 2
			} else if i+1 < len(s) && s[i+1] == '=' {
				toks = append(toks, token{tOp, "<=", i})
				i += 2
			} else {
				toks = append(toks, token{tOp, "<", i})
				i++
			}
		case c == '>':
			if i+1 < len(s) && s[i+1] == '=' {
				toks = append(toks, token{tOp, ">=", i})
				i += 2
			} else {
				toks = append(toks, token{tOp, ">", i})
				i++
			}
		case c == '(':
			toks = append(toks, token{tLParen, "(", i})
			i++
		case c == ')':
			toks = append(toks, token{tRParen, ")", i})
			i++
		case c == '[':
			toks = append(toks, token{tLBracket, "[", i})
			i++
		case c == ']':
			toks = append(toks, token{tRBracket, "]", i})
			i++
		case c == ',':
			toks = append(toks, token{tComma, ",", i})
			i++
		case c == '.':
			toks = append(toks, token{tDot, ".", i})
			i++
		case c == '+':
			toks = append(toks, token{tPlus, "+", i})
			i++
		case c == '-':
			toks = append(toks, token{tMinus, "-", i})
			i++
		default:
			return nil, serr(ReasonIllegalByte, "byte 0x%02x at %d", c, i)
		}
	}
	toks = append(toks, token{tEOF, "", len(s)})
	return toks, nil
}

// TokenTexts returns the token texts of s (without EOF), or nil if s does not
// tokenise. Used by generators for token-level mutation.
func TokenTexts(s string) []string {
	toks, err := lex(s)
	if err != nil {
		return nil
	}
	out := make([]string, 0, len(toks))
	for _, t := range toks[:len(toks)-1] {
		out = append(out, t.text)
	}
	return out
}

// ---------------------------------------------------------------- parser

type parser struct {
	toks []token
	i    int
}

func (p *parser) peek() token { return p.toks[p.i] }
func (p *parser) next() token {
	t := p.toks[p.i]
	if p.i < len(p.toks)-1 {
		p.i++
	}
	return t
}

func isKw(t token, kw string) bool {
	return t.kind == tIdent && strings.EqualFold(t.text, kw)
}

var condKeywords = []string{"AND", "OR", "NOT", "BETWEEN", "IN"}
var updKeywords = []string{"SET", "REMOVE", "ADD", "DELETE"}

func isAnyKw(t token, kws []string) bool {
	for _, k := range kws {
		if isKw(t, k) {
			return true
		}
	}
	return false
}

// MaxExprLen is DynamoDB's expression length limit.
const MaxExprLen = 4096

// ParseCondition parses a condition expression with the reference grammar
// (keywords case-insensitive).
func ParseCondition(s string) (Expr, *SyntaxError) {
	if len(s) > MaxExprLen {
		return nil, serr(ReasonTooLong, "%d bytes", len(s))
	}
	toks, err := lex(s)
	if err != nil {
		return nil, err
	}
	if len(toks) == 1 {
		return nil, serr(ReasonEmpty, "empty expression")
	}
	p := &parser{toks: toks}
	e, err := p.parseOr()
	if err != nil {
		return nil, err
	}
	if t := p.peek(); t.kind != tEOF {
		if t.kind == tRParen {
			return nil, serr(ReasonUnbalanced, "unexpected ) at %d", t.pos)
		}
		if t.kind == tOp {
			return nil, serr(ReasonChainedCmp, "unexpected %s at %d", t.text, t.pos)
		}
		return nil, serr(ReasonJuxtaposed, "unexpected %q at %d", t.text, t.pos)
	}
	return e, nil
}

func (p *parser) parseOr() (Expr, *SyntaxError) {
	l, err := p.parseAnd()
	if err != nil {
		return nil, err
	}
	for isKw(p.peek(), "OR") {
		p.next()
		r, err := p.parseAnd()
		if err != nil {
			return nil, err
		}
		l = Logic{"OR", l, r}
	}
	return l, nil
}

func (p *parser) parseAnd() (Expr, *SyntaxError) {
	l, err := p.parseNot()
	if err != nil {
		return nil, err
	}
	for isKw(p.peek(), "AND") {
		p.next()
		r, err := p.parseNot()
		if err != nil {
			return nil, err
		}
		l = Logic{"AND", l, r}
	}
	return l, nil
}

func (p *parser) parseNot() (Expr, *SyntaxError) {
	if isKw(p.peek(), "NOT") {
		p.next()
		x, err := p.parseNot()
		if err != nil {
			return nil, err
		}
		return Not{x}, nil
	}
	return p.parsePrimaryCond()
}

var condFuncs = map[string]int{
	"attribute_exists": 1, "attribute_not_exists": 1, "attribute_type": 2,
	"begins_with": 2, "contains": 2, "size": 1,
}
var updFuncs = map[string]int{"if_not_exists": 2, "list_append": 2}

// parsePrimaryCond parses a parenthesised condition, a boolean function call
// or an operand followed by a comparator / BETWEEN / IN.
func (p *parser) parsePrimaryCond() (Expr, *SyntaxError) {
	t := p.peek()
	if t.kind == tLParen {
		// could be a parenthesised condition
		p.next()
		if p.peek().kind == tRParen || p.peek().kind == tEOF {
			return nil, serr(ReasonUnbalanced, "empty or unclosed ( at %d", t.pos)
		}
		e, err := p.parseOr()
		if err != nil {
			return nil, err
		}
		if p.peek().kind != tRParen {
			if p.peek().kind == tEOF {
				return nil, serr(ReasonUnbalanced, "missing ) for ( at %d", t.pos)
			}
			return nil, serr(ReasonJuxtaposed, "expected ) at %d", p.peek().pos)
		}
		p.next()
		// a parenthesised condition cannot be compared: (a < b) = c
		if nt := p.peek(); nt.kind == tOp || isKw(nt, "BETWEEN") || isKw(nt, "IN") {
			return nil, serr(ReasonBoolOperand, "parenthesised condition used as operand at %d", nt.pos)
		}
		return Paren{e}, nil
	}
	op, err := p.parseOperand(true)
	if err != nil {
		return nil, err
	}
	e, err := p.parseComparisonTail(op)
	if err != nil {
		return nil, err
	}
	// a comparison cannot be compared again: a = b = c, a = b BETWEEN ..., a IN (..) = b
	if nt := p.peek(); nt.kind == tOp || isKw(nt, "BETWEEN") || isKw(nt, "IN") {
		if _, plain := e.(Func); !plain {
			return nil, serr(ReasonChainedCmp, "chained comparison at %d", nt.pos)
		}
	}
	return e, nil
}

// parseComparisonTail parses what follows the first operand of a condition.
func (p *parser) parseComparisonTail(op Expr) (Expr, *SyntaxError) {
	nt := p.peek()
	switch {
	case nt.kind == tOp:
		p.next()
		r, err := p.parseOperand(true)
		if err != nil {
			return nil, err
		}
		if p.peek().kind == tOp {
			return nil, serr(ReasonChainedCmp, "chained comparison at %d", p.peek().pos)
		}
		if isBoolFunc(op) || isBoolFunc(r) {
			return nil, serr(ReasonBoolOperand, "boolean function used as operand")
		}
		return Cmp{nt.text, op, r}, nil
	case isKw(nt, "BETWEEN"):
		p.next()
		lo, err := p.parseOperand(true)
		if err != nil {
			return nil, err
		}
		if !isKw(p.peek(), "AND") {
			return nil, serr(ReasonDangling, "BETWEEN without AND at %d", p.peek().pos)
		}
		p.next()
		hi, err := p.parseOperand(true)
		if err != nil {
			return nil, err
		}
		if isBoolFunc(op) || isBoolFunc(lo) || isBoolFunc(hi) {
			return nil, serr(ReasonBoolOperand, "boolean function used as operand")
		}
		return Between{op, lo, hi}, nil
	case isKw(nt, "IN"):
		p.next()
		if p.peek().kind != tLParen {
			return nil, serr(ReasonDangling, "IN without ( at %d", p.peek().pos)
		}
		lp := p.next()
		var list []Expr
		for {
			e, err := p.parseOperand(true)
			if err != nil {
				return nil, err
			}
			if isBoolFunc(e) {
				return nil, serr(ReasonBoolOperand, "boolean function used as operand")
			}
			list = append(list, e)
			if p.peek().kind == tComma {
				p.next()
				continue
			}
			break
		}
		if p.peek().kind != tRParen {
			if p.peek().kind == tEOF {
				return nil, serr(ReasonUnbalanced, "missing ) for IN ( at %d", lp.pos)
			}
			return nil, serr(ReasonJuxtaposed, "expected , or ) at %d", p.peek().pos)
		}
		p.next()
		if isBoolFunc(op) {
			return nil, serr(ReasonBoolOperand, "boolean function used as operand")
		}
		return In{op, list}, nil
	}
	// a bare operand at condition level: only boolean functions qualify
	if f, ok := op.(Func); ok && f.Name != "size" {
		return f, nil
	}
	if nt.kind == tEOF || nt.kind == tRParen || isAnyKw(nt, condKeywords) {
		return nil, serr(ReasonNonBoolean, "operand %s is not a condition", Render(op))
	}
	return nil, serr(ReasonJuxtaposed, "unexpected %q at %d", nt.text, nt.pos)
}

func isBoolFunc(e Expr) bool {
	f, ok := e.(Func)
	return ok && f.Name != "size"
}

// parseOperand parses path | :value | func(args). cond selects which function
// table is legal.
func (p *parser) parseOperand(cond bool) (Expr, *SyntaxError) {
	t := p.peek()
	switch t.kind {
	case tValue:
		p.next()
		if k := p.peek().kind; k == tDot || k == tLBracket {
			return nil, serr(ReasonValueAsPath, "document path starting at the value placeholder %s", t.text)
		}
		return ValueRef{t.text}, nil
	case tIdent:
		if cond && isKw(t, "NOT") {
			// "x = NOT y": a negated condition in operand position
			return nil, serr(ReasonBoolOperand, "NOT where an operand is expected at %d", t.pos)
		}
		if cond && isAnyKw(t, condKeywords) || !cond && isAnyKw(t, updKeywords) {
			return nil, serr(ReasonDangling, "keyword %q where an operand is expected at %d", t.text, t.pos)
		}
		// function call?
		if p.toks[p.i+1].kind == tLParen {
			return p.parseFunc(cond)
		}
		return p.parsePath()
	case tAlias:
		return p.parsePath()
	case tLParen:
		return nil, serr(ReasonOperandParen, "parenthesised operand at %d", t.pos)
	case tNumber:
		return nil, serr(ReasonBadToken, "bare number %q at %d", t.text, t.pos)
	case tEOF:
		return nil, serr(ReasonDangling, "expression ends where an operand is expected")
	case tRParen:
		return nil, serr(ReasonUnbalanced, "unexpected ) at %d", t.pos)
	}
	return nil, serr(ReasonDangling, "unexpected %q where an operand is expected at %d", t.text, t.pos)
}

func (p *parser) parseFunc(cond bool) (Expr, *SyntaxError) {
	name := p.next()
	lp := p.next() // (
	tbl := condFuncs
	if !cond {
		tbl = updFuncs
	}
	arity, ok := tbl[name.text]
	if !ok {
		return nil, serr(ReasonBadFunction, "unknown or misplaced function %q", name.text)
	}
	var args []Expr
	if p.peek().kind != tRParen {
		for {
			a, err := p.parseOperandOrArith(cond)
			if err != nil {
				return nil, err
			}
			args = append(args, a)
			if nt := p.peek(); cond && (nt.kind == tOp || isKw(nt, "BETWEEN") || isKw(nt, "IN") || isKw(nt, "AND") || isKw(nt, "OR")) {
				return nil, serr(ReasonBoolOperand, "condition used as function argument at %d", nt.pos)
			}
			if p.peek().kind == tComma {
				p.next()
				continue
			}
			break
		}
	}
	if p.peek().kind != tRParen {
		if p.peek().kind == tEOF {
			return nil, serr(ReasonUnbalanced, "missing ) for ( at %d", lp.pos)
		}
		return nil, serr(ReasonJuxtaposed, "expected , or ) at %d", p.peek().pos)
	}
	p.next()
	if len(args) != arity {
		return nil, serr(ReasonBadFunction, "%s takes %d arguments, got %d", name.text, arity, len(args))
	}
	for _, a := range args {
		if isBoolFunc(a) {
			return nil, serr(ReasonBoolOperand, "boolean function used as argument")
		}
	}
	return Func{name.text, args}, nil
}

func (p *parser) parseOperandOrArith(cond bool) (Expr, *SyntaxError) {
	if cond {
		return p.parseOperand(true)
	}
	return p.parseOperand(false)
}

func (p *parser) parsePath() (Path, *SyntaxError) {
	t := p.next()
	if t.kind != tIdent && t.kind != tAlias {
		return Path{}, serr(ReasonBadPath, "path must start with a name at %d", t.pos)
	}
	path := Path{Elems: []PathElem{{Name: t.text}}}
	for {
		switch p.peek().kind {
		case tDot:
			p.next()
			n := p.peek()
			if n.kind != tIdent && n.kind != tAlias {
				return Path{}, serr(ReasonBadPath, "empty or malformed path element at %d", n.pos)
			}
			p.next()
			path.Elems = append(path.Elems, PathElem{Name: n.text})
		case tLBracket:
			p.next()
			n := p.peek()
			if n.kind != tNumber {
				return Path{}, serr(ReasonBadPath, "list index must be a number at %d", n.pos)
			}
			p.next()
			if p.peek().kind != tRBracket {
				return Path{}, serr(ReasonUnbalanced, "missing ] at %d", p.peek().pos)
			}
			p.next()
			idx, err := strconv.Atoi(n.text)
			if err != nil || idx > 1<<20 {
				return Path{}, serr(ReasonBadPath, "list index out of range %q", n.text)
			}
			path.Elems = append(path.Elems, PathElem{Index: idx, IsIndex: true})
		default:
			return path, nil
		}
	}
}

// ParseUpdate parses an update expression with the reference grammar.
func ParseUpdate(s string) (Update, *SyntaxError) {
	if len(s) > MaxExprLen {
		return Update{}, serr(ReasonTooLong, "%d bytes", len(s))
	}
	toks, err := lex(s)
	if err != nil {
		return Update{}, err
	}
	if len(toks) == 1 {
		return Update{}, serr(ReasonEmpty, "empty expression")
	}
	p := &parser{toks: toks}
	var u Update
	seen := map[string]bool{}
	for p.peek().kind != tEOF {
		t := p.next()
		if !isAnyKw(t, updKeywords) {
			return Update{}, serr(ReasonBadUpdate, "expected SET/REMOVE/ADD/DELETE, got %q at %d", t.text, t.pos)
		}
		kind := strings.ToUpper(t.text)
		if seen[kind] {
			return Update{}, serr(ReasonBadUpdate, "clause %s appears twice", kind)
		}
		seen[kind] = true
		c := Clause{Kind: kind}
		for {
			a, err := p.parseAction(kind)
			if err != nil {
				return Update{}, err
			}
			c.Actions = append(c.Actions, a)
			if p.peek().kind == tComma {
				p.next()
				continue
			}
			break
		}
		u.Clauses = append(u.Clauses, c)
	}
	return u, nil
}

func (p *parser) parseAction(kind string) (Action, *SyntaxError) {
	t := p.peek()
	if t.kind == tEOF {
		return Action{}, serr(ReasonDangling, "%s without an action", kind)
	}
	if t.kind == tValue {
		return Action{}, serr(ReasonValueAsPath, "action must start with a path, got %q at %d", t.text, t.pos)
	}
	if t.kind == tLParen {
		return Action{}, serr(ReasonOperandParen, "parenthesised action target at %d", t.pos)
	}
	if t.kind == tNumber {
		return Action{}, serr(ReasonBadToken, "bare number %q as action target at %d", t.text, t.pos)
	}
	if t.kind != tIdent && t.kind != tAlias {
		return Action{}, serr(ReasonBadUpdate, "action must start with a path, got %q at %d", t.text, t.pos)
	}
	if isAnyKw(t, updKeywords) {
		return Action{}, serr(ReasonDangling, "%s without an action", kind)
	}
	path, err := p.parsePath()
	if err != nil {
		return Action{}, err
	}
	switch kind {
	case "REMOVE":
		return Action{Path: path}, nil
	case "SET":
		if !(p.peek().kind == tOp && p.peek().text == "=") {
			return Action{}, serr(ReasonBadUpdate, "SET action without = at %d", p.peek().pos)
		}
		p.next()
		v, err := p.parseSetValue()
		if err != nil {
			return Action{}, err
		}
		return Action{Path: path, Value: v}, nil
	default: // ADD / DELETE
		v := p.peek()
		if v.kind != tValue {
			if v.kind == tEOF {
				return Action{}, serr(ReasonDangling, "%s action without a value", kind)
			}
			if v.kind == tIdent && !isAnyKw(v, updKeywords) || v.kind == tAlias || v.kind == tNumber {
				// (a bare literal is a digit-leading name to the implementation's lexer)
				return Action{}, serr(ReasonPathAsValue, "%s needs a :value operand, got %q at %d", kind, v.text, v.pos)
			}
			return Action{}, serr(ReasonBadUpdate, "%s needs a :value operand, got %q at %d", kind, v.text, v.pos)
		}
		p.next()
		// the implementation parses the operand as a whole expression: an
		// operator or a call after the :value is part of F-LOOSETOKENS
		// ("an expression where a single :value is required")
		if nx := p.peek(); nx.kind == tPlus || nx.kind == tMinus || nx.kind == tLParen || nx.kind == tDot || nx.kind == tLBracket || nx.kind == tOp {
			return Action{}, serr(ReasonPathAsValue, "%s takes a single :value operand, got an expression continuing with %q at %d", kind, nx.text, nx.pos)
		}
		return Action{Path: path, Value: ValueRef{v.text}}, nil
	}
}

func (p *parser) parseSetValue() (Expr, *SyntaxError) {
	l, err := p.parseOperand(false)
	if err != nil {
		return nil, err
	}
	if k := p.peek().kind; k == tPlus || k == tMinus {
		op := p.next()
		r, err := p.parseOperand(false)
		if err != nil {
			return nil, err
		}
		if k2 := p.peek().kind; k2 == tPlus || k2 == tMinus {
			return nil, serr(ReasonBadUpdate, "chained arithmetic at %d", p.peek().pos)
		}
		return Arith{op.text, l, r}, nil
	}
	return l, nil
}

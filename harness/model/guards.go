package model

// WalkExpr visits every node of an expression.
func WalkExpr(e Expr, f func(Expr)) { walkExpr(e, f) }

// PathWrongKind reports whether resolving p on item applies ".name" to an
// existing value that is not a map, or "[i]" to one that is not a list.
func PathWrongKind(p Path, item Item, env Env) bool {
	rp, ok := env.resolvePath(p)
	if !ok || item == nil {
		return false
	}
	_, _, wrong := lookup(item, rp)
	return wrong
}

// rhsPaths collects the paths read by a SET value expression; ineFirst marks
// paths that are the first argument of if_not_exists.
func rhsPaths(e Expr, out *[]Path, ineFirst *[]Path) {
	switch x := e.(type) {
	case Paren:
		rhsPaths(x.X, out, ineFirst)
	case Path:
		*out = append(*out, x)
	case Arith:
		rhsPaths(x.L, out, ineFirst)
		rhsPaths(x.R, out, ineFirst)
	case Func:
		for i, a := range x.Args {
			if x.Name == "if_not_exists" && i == 0 {
				if p, ok := a.(Path); ok {
					*ineFirst = append(*ineFirst, p)
					continue
				}
			}
			rhsPaths(a, out, ineFirst)
		}
	}
}

// UpdateGuards returns the ids of the update-related known findings whose
// trigger predicate holds for this update on this pre-update item:
//   F-KEYMUT     an action targets a key attribute
//   F-SETORDER   a right-hand side reads a path that an earlier action of the
//                same expression writes (equal, prefix or extension)
//   F-SETMISSING a SET right-hand side reads a path that does not resolve
//                (other than as first argument of if_not_exists)
//   F-FLOAT      a + / - / ADD whose float64 result differs from the exact
//                decimal result
func UpdateGuards(u Update, base Item, env Env, keyAttrs []string) []string {
	var ids []string
	type tgt struct {
		rp  []ResolvedElem
		idx int
	}
	var targets []tgt
	n := 0
	for _, c := range u.Clauses {
		for _, a := range c.Actions {
			rp, ok := env.resolvePath(a.Path)
			if ok {
				targets = append(targets, tgt{rp, n})
				for _, k := range keyAttrs {
					if rp[0].Name == k {
						ids = append(ids, "F-KEYMUT")
					}
				}
			}
			n++
		}
	}
	fenv := env
	fenv.Item = base
	if fenv.Item == nil {
		fenv.Item = Item{}
	}
	var arith func(e Expr)
	arith = func(e Expr) {
		walkExpr(e, func(x Expr) {
			if ar, ok := x.(Arith); ok {
				l, ls, _ := fenv.evalSetValue(ar.L)
				r, rs, _ := fenv.evalSetValue(ar.R)
				if ls == stOK && rs == stOK && l.T == "N" && r.T == "N" && !FloatOpExact(l.S, r.S, ar.Op == "-") {
					ids = append(ids, "F-FLOAT")
				}
			}
		})
	}
	for _, c := range u.Clauses {
		for _, a := range c.Actions {
			switch c.Kind {
			case "SET":
				arith(a.Value)
			case "ADD":
				o := fenv.evalOperand(a.Value)
				if rp, ok := fenv.resolvePath(a.Path); ok && o.st == stOK && o.v.T == "N" {
					if cur, found, _ := lookup(fenv.Item, rp); found && cur.T == "N" && !FloatOpExact(cur.S, o.v.S, false) {
						ids = append(ids, "F-FLOAT")
					}
				}
			}
		}
	}
	n = 0
	for _, c := range u.Clauses {
		for _, a := range c.Actions {
			var reads, ine []Path
			if c.Kind == "SET" {
				rhsPaths(a.Value, &reads, &ine)
			}
			for _, p := range append(append([]Path{}, reads...), ine...) {
				rp, ok := env.resolvePath(p)
				if !ok {
					continue
				}
				for _, t := range targets {
					// list positions are compared loosely: a SET past the end
					// of a list appends, so it may land on any later index
					// (the implementation applies the actions in the order they are
					// written: only a write that comes first can be seen by the read)
					if t.idx < n && pathOverlapLoose(rp, t.rp) {
						ids = append(ids, "F-SETORDER")
					}
				}
			}
			for _, p := range reads {
				rp, ok := env.resolvePath(p)
				if !ok {
					continue
				}
				b := base
				if b == nil {
					b = Item{}
				}
				if _, found, _ := lookup(b, rp); !found {
					ids = append(ids, "F-SETMISSING")
				}
			}
			n++
		}
	}
	return ids
}

// pathOverlapLoose is pathOverlap with every list index matching every other.
func pathOverlapLoose(a, b []ResolvedElem) bool {
	n := len(a)
	if len(b) < n {
		n = len(b)
	}
	for i := 0; i < n; i++ {
		if a[i].IsIndex != b[i].IsIndex {
			return false
		}
		if !a[i].IsIndex && a[i].Name != b[i].Name {
			return false
		}
	}
	return true
}

// MapExpr rebuilds an expression bottom-up, replacing every node by f(node).
func MapExpr(e Expr, f func(Expr) Expr) Expr {
	if e == nil {
		return nil
	}
	switch x := e.(type) {
	case Cmp:
		x.L, x.R = MapExpr(x.L, f), MapExpr(x.R, f)
		return f(x)
	case Between:
		x.V, x.Lo, x.Hi = MapExpr(x.V, f), MapExpr(x.Lo, f), MapExpr(x.Hi, f)
		return f(x)
	case In:
		x.V = MapExpr(x.V, f)
		list := make([]Expr, len(x.List))
		for i, a := range x.List {
			list[i] = MapExpr(a, f)
		}
		x.List = list
		return f(x)
	case Logic:
		x.L, x.R = MapExpr(x.L, f), MapExpr(x.R, f)
		return f(x)
	case Not:
		x.X = MapExpr(x.X, f)
		return f(x)
	case Func:
		args := make([]Expr, len(x.Args))
		for i, a := range x.Args {
			args[i] = MapExpr(a, f)
		}
		x.Args = args
		return f(x)
	case Paren:
		x.X = MapExpr(x.X, f)
		return f(x)
	case Arith:
		x.L, x.R = MapExpr(x.L, f), MapExpr(x.R, f)
		return f(x)
	}
	return f(e)
}

// MapUpdate applies MapExpr to every target path and value of an update.
func MapUpdate(u Update, f func(Expr) Expr) Update {
	out := Update{}
	for _, c := range u.Clauses {
		nc := Clause{Kind: c.Kind}
		for _, a := range c.Actions {
			na := Action{Value: MapExpr(a.Value, f)}
			if p, ok := f(a.Path).(Path); ok {
				na.Path = p
			} else {
				na.Path = a.Path
			}
			nc.Actions = append(nc.Actions, na)
		}
		out.Clauses = append(out.Clauses, nc)
	}
	return out
}

package model

import (
	"sort"
	"strings"
)

// ---------------------------------------------------------------- abstract operations

// IndexSchema describes a secondary index.
type IndexSchema struct {
	Name         string `json:"name"`
	Hash         string `json:"hash"`
	Range        string `json:"range,omitempty"`
	Global       bool   `json:"global"`
	NoThroughput bool   `json:"noThroughput,omitempty"` // GSI without ProvisionedThroughput
	ViaHelper    bool   `json:"viaHelper,omitempty"`    // AddIndex: use the client's AddIndex helper (S attributes, no throughput)
}

// Schema describes a table to create.
type Schema struct {
	Table        string            `json:"table"`
	Hash         string            `json:"hash"` // "" = invalid: no HASH element
	Range        string            `json:"range,omitempty"`
	Attrs        map[string]string `json:"attrs"` // attribute definitions name -> S|N|B
	Indexes      []IndexSchema     `json:"indexes,omitempty"`
	Billing      string            `json:"billing"`                // PAY_PER_REQUEST | PROVISIONED
	NoThroughput bool              `json:"noThroughput,omitempty"` // omit ProvisionedThroughput
	EmptyGSIList bool              `json:"emptyGSIList,omitempty"` // pass a non-nil empty GSI list
	EmptyLSIList bool              `json:"emptyLSIList,omitempty"`
	ViaAddTable  bool              `json:"viaAddTable,omitempty"` // use the AddTable helper (S keys, pay per request)
}

// WriteReq is one BatchWriteItem request.
type WriteReq struct {
	Put    Item `json:"put,omitempty"`
	Delete Item `json:"delete,omitempty"`
	// Both/Neither make the request malformed on purpose.
	Both    bool `json:"both,omitempty"`
	Neither bool `json:"neither,omitempty"`
}

// TableBatch holds the requests of one table (slice of pairs keeps order
// deterministic in replay files).
type TableBatch struct {
	Table string     `json:"table"`
	Reqs  []WriteReq `json:"reqs,omitempty"`
	Keys  []Item     `json:"keys,omitempty"`
	// BatchGet only: the table's ProjectionExpression and the names it uses
	// (the implementation validates them and returns whole items)
	Projection string            `json:"projection,omitempty"`
	Names      map[string]string `json:"names,omitempty"`
}

// Op is one abstract operation.
type Op struct {
	Kind       string            `json:"kind"`
	Table      string            `json:"table,omitempty"`
	Index      string            `json:"index,omitempty"`
	Item       Item              `json:"item,omitempty"`
	Key        Item              `json:"key,omitempty"`
	Cond       string            `json:"cond,omitempty"`
	Update     string            `json:"update,omitempty"`
	KeyCond    string            `json:"keyCond,omitempty"`
	Filter     string            `json:"filter,omitempty"`
	Projection string            `json:"projection,omitempty"`
	Names      map[string]string `json:"names,omitempty"`
	Values     map[string]AV     `json:"values,omitempty"`
	Limit      int               `json:"limit,omitempty"`
	StartKey   Item              `json:"startKey,omitempty"`
	Backward   bool              `json:"backward,omitempty"`
	ReturnOld  bool              `json:"returnOld,omitempty"` // DeleteItem ReturnValues=ALL_OLD
	// ReturnValues: the raw ReturnValues parameter of Put / Update / Delete (""
	// = not sent). Only Delete ALL_OLD and the item UpdateItem always returns are
	// implemented by the library; for other values the response is not compared.
	ReturnValues     string            `json:"returnValues,omitempty"`
	ReturnOnCondFail bool              `json:"returnOnCondFail,omitempty"` // v2 UpdateItem only
	Batch            []TableBatch      `json:"batch,omitempty"`
	Schema           *Schema           `json:"schema,omitempty"`
	IndexSchema      *IndexSchema      `json:"indexSchema,omitempty"`
	IndexAttrs       map[string]string `json:"indexAttrs,omitempty"`
	Failure          string            `json:"failure,omitempty"` // none | internal_server | deprecated
	Via              string            `json:"via,omitempty"`     // emulate | active | deactive
	// Blind: the request is sent to the implementation only; the reference
	// model does not follow it (used where the model cannot: after a request
	// DynamoDB would have rejected was accepted, and for first pages whose only
	// purpose is to obtain a LastEvaluatedKey).
	Blind      bool `json:"blind,omitempty"`
	Consistent bool `json:"consistent,omitempty"` // ConsistentRead on Get / Query / Scan / BatchGet
	TrySpec    bool `json:"trySpec,omitempty"`    // execute the request even if the model calls it speculative (3.2)
	Repeat     bool `json:"repeat,omitempty"`     // the driver sends the same request object twice and returns the second response
	// Shared: every call that carries the same tag passes the very same request object to the client (Get, Query, Scan)
	Shared string `json:"shared,omitempty"`
}

// Error classes.
const (
	ErrNone         = ""
	ErrValidation   = "Validation"
	ErrCondFailed   = "ConditionalCheckFailed"
	ErrNotFound     = "ResourceNotFound"
	ErrInUse        = "ResourceInUse"
	ErrInternal     = "InternalServerError"
	ErrForced       = "ForcedFailure"
	ErrSyntax       = "SyntaxError"      // returned error wrapping interpreter.ErrSyntaxError
	ErrUnsupported  = "Unsupported"      // returned error wrapping interpreter.ErrUnsupportedFeature
	ErrSyntaxPanic  = "SyntaxPanic"      // documented panic
	ErrUnsupPanic   = "UnsupportedPanic" // documented panic
	ErrRuntimePanic = "RuntimePanic"
	ErrSDKParam     = "SDKParamValidation"
)

// IndexDesc is the description of one index.
type IndexDesc struct {
	Name     string `json:"name"`
	Global   bool   `json:"global"`
	Hash     string `json:"hash"`
	Range    string `json:"range,omitempty"`
	Count    int    `json:"count"`
	HasCount bool   `json:"hasCount"`
}

// Desc is a table description.
type Desc struct {
	Table   string      `json:"table"`
	Count   int         `json:"count"`
	Hash    string      `json:"hash"`
	Range   string      `json:"range,omitempty"`
	Indexes []IndexDesc `json:"indexes,omitempty"`
}

// Result is the normalised outcome of an operation.
type Result struct {
	Err     string `json:"err,omitempty"`
	ErrText string `json:"errText,omitempty"`
	// model only: the error stems from expression validation, so any of the
	// expression error classes / documented panics is acceptable
	ExprErr bool `json:"exprErr,omitempty"`
	// model only: the outcome is not asserted
	Weak    bool   `json:"weak,omitempty"`
	WeakWhy string `json:"weakWhy,omitempty"`
	// model only: DynamoDB rejects the request for a reason no listed property
	// demands (operand types, index key types): if the implementation rejects
	// it nothing may change; if it accepts it the case ends there
	Spec bool `json:"spec,omitempty"`
	// model only: alternative acceptable error classes
	ErrAlt []string `json:"errAlt,omitempty"`

	Item     Item   `json:"item,omitempty"` // Get item / Update attributes / Delete ALL_OLD
	CondItem Item   `json:"condItem,omitempty"`
	Items    []Item `json:"items,omitempty"`
	Count    int    `json:"count,omitempty"`
	LastKey  Item   `json:"lastKey,omitempty"`
	// model only: attribute by which Items must be ordered ("" = any order)
	OrderBy   string `json:"orderBy,omitempty"`
	OrderDesc bool   `json:"orderDesc,omitempty"`

	Unprocessed     []TableBatch `json:"unprocessed,omitempty"`
	Metrics         string       `json:"metrics,omitempty"`   // BatchWrite: canonical rendering of the returned ItemCollectionMetrics
	Responses       []TableBatch `json:"responses,omitempty"` // Keys holds returned items
	UnprocessedKeys []TableBatch `json:"unprocessedKeys,omitempty"`
	Desc            *Desc        `json:"desc,omitempty"`
}

// IsExprErrClass reports whether the class is one an expression rejection may
// surface as.
func IsExprErrClass(c string) bool {
	switch c {
	case ErrValidation, ErrSyntax, ErrUnsupported, ErrSyntaxPanic, ErrUnsupPanic:
		return true
	}
	return false
}

// ---------------------------------------------------------------- tables

// Table is the model of one table.
type Table struct {
	Schema Schema
	Items  map[string]Item // canonical key tuple -> item
}

// DB is the model of one client.
type DB struct {
	Tables  map[string]*Table
	Failure string // "" | internal_server | deprecated
	// MetricsSet: the SetItemCollectionMetrics helper was called (with the fixed
	// map of the SetMetrics operation); every BatchWriteItem response carries it
	MetricsSet bool
}

// NewDB returns an empty model.
func NewDB() *DB { return &DB{Tables: map[string]*Table{}} }

// KeyAttrs lists the table's key attribute names.
func (s *Schema) KeyAttrs() []string {
	if s.Range == "" {
		return []string{s.Hash}
	}
	return []string{s.Hash, s.Range}
}

// FindIndex returns the named index.
func (s *Schema) FindIndex(name string) *IndexSchema {
	for i := range s.Indexes {
		if s.Indexes[i].Name == name {
			return &s.Indexes[i]
		}
	}
	return nil
}

// KeyOf extracts the canonical key tuple of an item/key map; ok=false when a
// key attribute is missing or of the wrong type.
func (t *Table) KeyOf(it Item) (string, bool) {
	var parts []string
	for _, k := range t.Schema.KeyAttrs() {
		v, ok := it[k]
		if !ok || v.T != t.Schema.Attrs[k] {
			return "", false
		}
		parts = append(parts, Canon(v))
	}
	return strings.Join(parts, "|"), true
}

// KeyItem returns just the key attributes of an item.
func (t *Table) KeyItem(it Item) Item {
	out := Item{}
	for _, k := range t.Schema.KeyAttrs() {
		if v, ok := it[k]; ok {
			out[k] = v.Clone()
		}
	}
	return out
}

// InIndex reports whether the item belongs to the index (has all index key
// attributes with the declared types).
func (t *Table) InIndex(ix *IndexSchema, it Item) bool {
	for _, k := range []string{ix.Hash, ix.Range} {
		if k == "" {
			continue
		}
		v, ok := it[k]
		if !ok || v.T != t.Schema.Attrs[k] {
			return false
		}
	}
	return true
}

// indexKeyTypeError reports whether the item carries an index key attribute
// of a type other than the declared one.
func (t *Table) indexKeyTypeError(it Item) bool {
	for i := range t.Schema.Indexes {
		ix := &t.Schema.Indexes[i]
		for _, k := range []string{ix.Hash, ix.Range} {
			if k == "" {
				continue
			}
			if v, ok := it[k]; ok && v.T != t.Schema.Attrs[k] {
				return true
			}
		}
	}
	return false
}

// keySizeError reports whether a key attribute (of the table or of an index)
// holds a string or binary value longer than DynamoDB allows (2048 bytes for a
// partition key, 1024 for a sort key).
func (t *Table) keySizeError(it Item) bool {
	tooLong := func(attr string, limit int) bool {
		v, ok := it[attr]
		if !ok || attr == "" {
			return false
		}
		switch v.T {
		case "S":
			return len(v.S) > limit
		case "B":
			return len(v.B) > limit
		}
		return false
	}
	if tooLong(t.Schema.Hash, 2048) || tooLong(t.Schema.Range, 1024) {
		return true
	}
	for i := range t.Schema.Indexes {
		if tooLong(t.Schema.Indexes[i].Hash, 2048) || tooLong(t.Schema.Indexes[i].Range, 1024) {
			return true
		}
	}
	return false
}

// View returns the items visible through the base table ("" index) or an index.
func (t *Table) View(index string) []Item {
	var out []Item
	var ix *IndexSchema
	if index != "" {
		ix = t.Schema.FindIndex(index)
		if ix == nil {
			return nil
		}
	}
	keys := make([]string, 0, len(t.Items))
	for k := range t.Items {
		keys = append(keys, k)
	}
	sort.Strings(keys)
	for _, k := range keys {
		it := t.Items[k]
		if ix != nil && !t.InIndex(ix, it) {
			continue
		}
		out = append(out, CloneItem(it))
	}
	return out
}

// SortedKeys returns the canonical keys of stored items, sorted.
func (t *Table) SortedKeys() []string {
	keys := make([]string, 0, len(t.Items))
	for k := range t.Items {
		keys = append(keys, k)
	}
	sort.Strings(keys)
	return keys
}

// ---------------------------------------------------------------- helpers for expressions in requests

type parsedReq struct {
	cond, keyCond, filter                     Expr
	update                                    Update
	hasCond, hasKeyCond, hasFilter, hasUpdate bool
}

func errRes(class, text string) Result { return Result{Err: class, ErrText: text} }
func exprErr(text string) Result {
	return Result{Err: ErrValidation, ExprErr: true, ErrText: text}
}

// validPlaceholderKey mirrors DynamoDB's syntax for ExpressionAttributeNames /
// ExpressionAttributeValues keys.
func validPlaceholderKey(k string, lead byte) bool {
	if len(k) < 2 || k[0] != lead {
		return false
	}
	for i := 1; i < len(k); i++ {
		if !isAlnum(k[i]) {
			return false
		}
	}
	return true
}

// checkPlaceholders validates supplied vs used placeholders for a request.
// The returned result has Err set when the request must be rejected.
func checkPlaceholders(op *Op, pr *parsedReq) *Result {
	usedN, usedV := map[string]bool{}, map[string]bool{}
	add := func(n, v map[string]bool) {
		for k := range n {
			usedN[k] = true
		}
		for k := range v {
			usedV[k] = true
		}
	}
	if pr.hasCond {
		add(UsedPlaceholders(func(f func(Expr)) { walkExpr(pr.cond, f) }))
	}
	if pr.hasKeyCond {
		add(UsedPlaceholders(func(f func(Expr)) { walkExpr(pr.keyCond, f) }))
	}
	if pr.hasFilter {
		add(UsedPlaceholders(func(f func(Expr)) { walkExpr(pr.filter, f) }))
	}
	if pr.hasUpdate {
		add(UsedPlaceholders(func(f func(Expr)) { WalkUpdate(pr.update, f) }))
	}
	if op.Projection != "" {
		// projection expressions are comma separated paths
		for _, part := range strings.Split(op.Projection, ",") {
			toks, err := lex(part)
			if err != nil {
				r := exprErr("projection: " + err.Error())
				return &r
			}
			for _, t := range toks {
				if t.kind == tAlias {
					usedN[t.text] = true
				}
			}
		}
	}
	for k := range op.Names {
		if !validPlaceholderKey(k, '#') {
			r := errRes(ErrValidation, "malformed ExpressionAttributeNames key "+k)
			return &r
		}
		if !usedN[k] {
			r := errRes(ErrValidation, "unused ExpressionAttributeNames key "+k)
			return &r
		}
	}
	for k := range op.Values {
		if !validPlaceholderKey(k, ':') {
			r := errRes(ErrValidation, "malformed ExpressionAttributeValues key "+k)
			return &r
		}
		if !usedV[k] {
			r := errRes(ErrValidation, "unused ExpressionAttributeValues key "+k)
			return &r
		}
	}
	for k := range usedN {
		if _, ok := op.Names[k]; !ok {
			r := exprErr("undefined " + k)
			return &r
		}
	}
	for k := range usedV {
		if _, ok := op.Values[k]; !ok {
			r := exprErr("undefined " + k)
			return &r
		}
	}
	return nil
}

func parseReq(op *Op) (*parsedReq, *Result) {
	pr := &parsedReq{}
	if op.Cond != "" {
		e, err := ParseCondition(op.Cond)
		if err != nil {
			r := exprErr("condition: " + err.Error())
			return nil, &r
		}
		pr.cond, pr.hasCond = e, true
	}
	if op.KeyCond != "" {
		e, err := ParseCondition(op.KeyCond)
		if err != nil {
			r := exprErr("key condition: " + err.Error())
			return nil, &r
		}
		pr.keyCond, pr.hasKeyCond = e, true
	}
	if op.Filter != "" {
		e, err := ParseCondition(op.Filter)
		if err != nil {
			r := exprErr("filter: " + err.Error())
			return nil, &r
		}
		pr.filter, pr.hasFilter = e, true
	}
	if op.Update != "" {
		u, err := ParseUpdate(op.Update)
		if err != nil {
			r := exprErr("update: " + err.Error())
			return nil, &r
		}
		pr.update, pr.hasUpdate = u, true
	}
	if r := checkPlaceholders(op, pr); r != nil {
		return nil, r
	}
	return pr, nil
}

// KeyCondShape classifies a parsed key condition against a key schema:
// "" if it is hash equality optionally AND one sort-key condition, otherwise
// the reason it is not.
func KeyCondShape(e Expr, env Env, hash, rng string) string {
	e = StripParens(e)
	var conj []Expr
	var flat func(Expr) bool
	flat = func(x Expr) bool {
		if l, ok := x.(Logic); ok {
			if l.Op != "AND" {
				return false
			}
			return flat(l.L) && flat(l.R)
		}
		conj = append(conj, x)
		return true
	}
	if !flat(e) {
		return "OR in key condition"
	}
	if len(conj) > 2 {
		return "more than two key conditions"
	}
	nameOf := func(x Expr) (string, bool) {
		p, ok := x.(Path)
		if !ok || len(p.Elems) != 1 {
			return "", false
		}
		n := p.Elems[0].Name
		if strings.HasPrefix(n, "#") {
			n = env.Names[n]
		}
		return n, true
	}
	isVal := func(x Expr) bool { _, ok := x.(ValueRef); return ok }
	hashSeen, rangeSeen := 0, 0
	for _, c := range conj {
		switch x := c.(type) {
		case Cmp:
			var attr string
			var ok bool
			switch {
			case isVal(x.R):
				attr, ok = nameOf(x.L)
			case isVal(x.L):
				attr, ok = nameOf(x.R)
			}
			if !ok {
				return "key condition operand is not attribute vs value"
			}
			switch {
			case attr == hash:
				if x.Op != "=" {
					return "hash key condition is not an equality"
				}
				hashSeen++
			case attr == rng && rng != "":
				if x.Op == "<>" {
					return "<> on the sort key"
				}
				rangeSeen++
			default:
				return "non-key attribute in key condition"
			}
		case Between:
			attr, ok := nameOf(x.V)
			if !ok || !isVal(x.Lo) || !isVal(x.Hi) {
				return "malformed BETWEEN in key condition"
			}
			if attr != rng || rng == "" {
				return "BETWEEN on a non-sort-key attribute"
			}
			rangeSeen++
		case Func:
			if x.Name != "begins_with" {
				return "function " + x.Name + " in key condition"
			}
			attr, ok := nameOf(x.Args[0])
			if !ok || !isVal(x.Args[1]) {
				return "malformed begins_with in key condition"
			}
			if attr != rng || rng == "" {
				return "begins_with on a non-sort-key attribute"
			}
			rangeSeen++
		default:
			return "unsupported construct in key condition"
		}
	}
	if hashSeen != 1 {
		return "key condition needs exactly one hash equality"
	}
	if rangeSeen > 1 {
		return "more than one sort key condition"
	}
	return ""
}

// ---------------------------------------------------------------- Apply

func (db *DB) failureResult() *Result {
	switch db.Failure {
	case "internal_server":
		r := errRes(ErrInternal, "emulated failure")
		return &r
	case "deprecated":
		r := errRes(ErrForced, "forced failure")
		return &r
	}
	return nil
}

// Apply executes the operation on the model.
func (db *DB) Apply(op Op) Result {
	switch op.Kind {
	case "CreateTable":
		return db.createTable(op)
	case "DeleteTable":
		t, ok := db.Tables[op.Table]
		if !ok {
			return errRes(ErrNotFound, "no such table")
		}
		d := t.describe()
		delete(db.Tables, op.Table)
		return Result{Desc: d}
	case "DescribeTable":
		t, ok := db.Tables[op.Table]
		if !ok {
			return errRes(ErrNotFound, "no such table")
		}
		return Result{Desc: t.describe()}
	case "AddIndex":
		return db.addIndex(op)
	case "DeleteIndex":
		t, ok := db.Tables[op.Table]
		if !ok {
			return errRes(ErrNotFound, "no such table")
		}
		for i := range t.Schema.Indexes {
			if t.Schema.Indexes[i].Name == op.Index {
				t.Schema.Indexes = append(t.Schema.Indexes[:i:i], t.Schema.Indexes[i+1:]...)
				return Result{Desc: t.describe()}
			}
		}
		return errRes(ErrNotFound, "no such index")
	case "ClearTable":
		t, ok := db.Tables[op.Table]
		if !ok {
			return errRes(ErrNotFound, "no such table")
		}
		t.Items = map[string]Item{}
		return Result{}
	case "SetMetrics":
		db.MetricsSet = true
		return Result{}
	case "SetFailure":
		f := op.Failure
		switch op.Via {
		case "active":
			f = "deprecated"
		case "deactive":
			f = "none"
		}
		if f == "none" {
			f = ""
		}
		db.Failure = f
		return Result{}
	case "TransactWrite":
		if r := db.failureResult(); r != nil {
			return *r
		}
		return Result{}
	case "BatchWrite":
		return db.batchWrite(op)
	case "BatchGet":
		return db.batchGet(op)
	}
	// single-item data operations and reads
	if r := db.failureResult(); r != nil {
		return *r
	}
	pr, bad := parseReq(&op)
	if bad != nil {
		if _, ok := db.Tables[op.Table]; !ok {
			bad.ErrAlt = append(bad.ErrAlt, ErrNotFound)
		}
		return *bad
	}
	t, ok := db.Tables[op.Table]
	if !ok {
		return errRes(ErrNotFound, "no such table")
	}
	if op.ReturnValues != "" {
		valid := map[string]bool{"NONE": true, "ALL_OLD": true}
		if op.Kind == "Update" {
			valid["UPDATED_OLD"], valid["ALL_NEW"], valid["UPDATED_NEW"] = true, true, true
		}
		if (op.Kind == "Put" || op.Kind == "Update" || op.Kind == "Delete") && !valid[op.ReturnValues] {
			// DynamoDB rejects the value for this operation; no listed property demands it
			return Result{Spec: true, WeakWhy: "ReturnValues " + op.ReturnValues + " is not valid for " + op.Kind}
		}
	}
	switch op.Kind {
	case "Put":
		return t.put(op, pr)
	case "Update":
		return t.update(op, pr)
	case "Delete":
		return t.del(op, pr)
	case "Get":
		k, ok := t.KeyOf(op.Key)
		if !ok {
			return errRes(ErrValidation, "malformed key")
		}
		return Result{Item: CloneItem(t.Items[k])}
	case "Query", "Scan":
		return t.search(op, pr)
	}
	return Result{Weak: true, WeakWhy: "unknown op " + op.Kind}
}

func (db *DB) createTable(op Op) Result {
	s := op.Schema
	if _, ok := db.Tables[s.Table]; ok {
		return errRes(ErrInUse, "table exists")
	}
	if s.Hash == "" {
		return errRes(ErrValidation, "no hash key")
	}
	if _, ok := s.Attrs[s.Hash]; !ok {
		return errRes(ErrValidation, "hash key not defined")
	}
	if _, ok := s.Attrs[s.Range]; s.Range != "" && !ok {
		return errRes(ErrValidation, "range key not defined")
	}
	provisioned := s.Billing != "PAY_PER_REQUEST"
	if provisioned && s.NoThroughput {
		return errRes(ErrValidation, "no provisioned throughput")
	}
	hasG, hasL := false, false
	for _, ix := range s.Indexes {
		if ix.Global {
			hasG = true
		} else {
			hasL = true
		}
	}
	if s.EmptyGSIList && !hasG {
		return errRes(ErrValidation, "empty GSI list")
	}
	for _, ix := range s.Indexes {
		if !ix.Global {
			continue
		}
		if r := checkIndexSchema(s, ix, provisioned); r != nil {
			return *r
		}
	}
	if s.EmptyLSIList && !hasL {
		return errRes(ErrValidation, "empty LSI list")
	}
	for _, ix := range s.Indexes {
		if ix.Global {
			continue
		}
		if r := checkIndexSchema(s, ix, false); r != nil {
			return *r
		}
	}
	if g, l := countIndexes(s.Indexes); g > MaxGSI || l > MaxLSI {
		// DynamoDB's default quotas; no listed property demands the rejection
		return Result{Spec: true, WeakWhy: "more indexes than DynamoDB's quotas allow"}
	}
	ns := *s
	ns.Attrs = map[string]string{}
	for k, v := range s.Attrs {
		ns.Attrs[k] = v
	}
	ns.Indexes = append([]IndexSchema{}, s.Indexes...)
	t := &Table{Schema: ns, Items: map[string]Item{}}
	db.Tables[s.Table] = t
	return Result{Desc: t.describe()}
}

// DynamoDB's default quotas per table.
const (
	MaxGSI = 20
	MaxLSI = 5
)

func countIndexes(ixs []IndexSchema) (global, local int) {
	for _, ix := range ixs {
		if ix.Global {
			global++
		} else {
			local++
		}
	}
	return
}

func checkIndexSchema(s *Schema, ix IndexSchema, needThroughput bool) *Result {
	if needThroughput && ix.NoThroughput {
		r := errRes(ErrValidation, "no provisioned throughput for GSI")
		return &r
	}
	if ix.Hash == "" {
		r := errRes(ErrValidation, "index without hash key")
		return &r
	}
	if _, ok := s.Attrs[ix.Hash]; !ok {
		r := errRes(ErrValidation, "index hash key not defined")
		return &r
	}
	if _, ok := s.Attrs[ix.Range]; ix.Range != "" && !ok {
		r := errRes(ErrValidation, "index range key not defined")
		return &r
	}
	return nil
}

func (db *DB) addIndex(op Op) Result {
	t, ok := db.Tables[op.Table]
	if !ok {
		return errRes(ErrNotFound, "no such table")
	}
	// re-declaring the type of an attribute that the table key or an existing
	// index uses is rejected by DynamoDB; no listed property demands it
	inUse := map[string]bool{t.Schema.Hash: true, t.Schema.Range: true}
	for _, x := range t.Schema.Indexes {
		if x.Name != op.IndexSchema.Name {
			inUse[x.Hash], inUse[x.Range] = true, true
		}
	}
	for k, v := range op.IndexAttrs {
		if old, ok := t.Schema.Attrs[k]; ok && old != v && inUse[k] {
			return Result{Spec: true, WeakWhy: "attribute definition of a key attribute in use changed"}
		}
	}
	for k, v := range op.IndexAttrs {
		t.Schema.Attrs[k] = v
	}
	ix := *op.IndexSchema
	if r := checkIndexSchema(&t.Schema, ix, t.Schema.Billing != "PAY_PER_REQUEST"); r != nil {
		r.Desc = t.describe()
		return *r
	}
	// re-creating an index under an existing name replaces it
	for i := range t.Schema.Indexes {
		if t.Schema.Indexes[i].Name == ix.Name {
			t.Schema.Indexes[i] = ix
			return Result{Desc: t.describe()}
		}
	}
	if g, _ := countIndexes(t.Schema.Indexes); ix.Global && g >= MaxGSI {
		return Result{Spec: true, WeakWhy: "more global indexes than DynamoDB's quota allows"}
	}
	t.Schema.Indexes = append(t.Schema.Indexes, ix)
	return Result{Desc: t.describe()}
}

func (t *Table) describe() *Desc {
	d := &Desc{Table: t.Schema.Table, Count: len(t.Items), Hash: t.Schema.Hash, Range: t.Schema.Range}
	for i := range t.Schema.Indexes {
		ix := &t.Schema.Indexes[i]
		d.Indexes = append(d.Indexes, IndexDesc{Name: ix.Name, Global: ix.Global, Hash: ix.Hash, Range: ix.Range,
			Count: len(t.View(ix.Name)), HasCount: true})
	}
	sort.Slice(d.Indexes, func(i, j int) bool { return d.Indexes[i].Name < d.Indexes[j].Name })
	return d
}

func (t *Table) env(op Op, item Item) Env {
	if item == nil {
		item = Item{}
	}
	return Env{Item: item, Names: op.Names, Values: op.Values}
}

// checkCond evaluates the request's condition on the stored item; returns nil
// when the write may proceed.
func (t *Table) checkCond(op Op, pr *parsedReq, stored Item) *Result {
	if !pr.hasCond {
		return nil
	}
	o := EvalCond(pr.cond, t.env(op, stored))
	if !o.Single() {
		return &Result{Weak: true, WeakWhy: "condition outcome " + o.String()}
	}
	switch o {
	case OE:
		r := exprErr("condition evaluation error")
		return &r
	case OF:
		r := errRes(ErrCondFailed, "condition false")
		r.CondItem = CloneItem(stored)
		return &r
	}
	return nil
}

func (t *Table) put(op Op, pr *parsedReq) Result {
	k, ok := t.KeyOf(op.Item)
	if !ok {
		return errRes(ErrValidation, "malformed key in item")
	}
	if r := t.checkCond(op, pr, t.Items[k]); r != nil {
		return *r
	}
	if t.indexKeyTypeError(op.Item) {
		return Result{Spec: true, WeakWhy: "index key attribute of the wrong type"}
	}
	if t.keySizeError(op.Item) {
		return Result{Spec: true, WeakWhy: "key attribute value longer than DynamoDB allows"}
	}
	if itemTooDeep(op.Item) {
		return Result{Spec: true, WeakWhy: "document nested deeper than DynamoDB's 32 levels"}
	}
	t.Items[k] = CloneItem(op.Item)
	return Result{}
}

func (t *Table) update(op Op, pr *parsedReq) Result {
	k, ok := t.KeyOf(op.Key)
	if !ok {
		return errRes(ErrValidation, "malformed key")
	}
	if !pr.hasUpdate {
		return Result{Weak: true, WeakWhy: "UpdateItem without update expression"}
	}
	stored, exists := t.Items[k]
	if r := t.checkCond(op, pr, stored); r != nil {
		return *r
	}
	base := stored
	if !exists {
		base = t.KeyItem(op.Key)
	}
	ur := ApplyUpdate(pr.update, base, t.env(op, base), t.Schema.KeyAttrs())
	if ur.Weak {
		return Result{Weak: true, WeakWhy: ur.Why}
	}
	if ur.Spec {
		return Result{Spec: true, WeakWhy: ur.Why}
	}
	if ur.Err {
		return exprErr(ur.Why)
	}
	if t.indexKeyTypeError(ur.Item) {
		return Result{Spec: true, WeakWhy: "index key attribute of the wrong type"}
	}
	if t.keySizeError(ur.Item) {
		return Result{Spec: true, WeakWhy: "key attribute value longer than DynamoDB allows"}
	}
	if itemTooDeep(ur.Item) {
		return Result{Spec: true, WeakWhy: "document nested deeper than DynamoDB's 32 levels"}
	}
	t.Items[k] = ur.Item
	return Result{Item: CloneItem(ur.Item)}
}

func (t *Table) del(op Op, pr *parsedReq) Result {
	k, ok := t.KeyOf(op.Key)
	if !ok {
		return errRes(ErrValidation, "malformed key")
	}
	stored := t.Items[k]
	if r := t.checkCond(op, pr, stored); r != nil {
		return *r
	}
	delete(t.Items, k)
	if op.ReturnOld {
		return Result{Item: CloneItem(stored)}
	}
	return Result{}
}

func (t *Table) search(op Op, pr *parsedReq) Result {
	if op.Index != "" && t.Schema.FindIndex(op.Index) == nil {
		return Result{Weak: true, WeakWhy: "unknown index"}
	}
	if op.Limit != 0 || len(op.StartKey) != 0 {
		return Result{Weak: true, WeakWhy: "pagination is decided metamorphically"}
	}
	hash, rng := t.Schema.Hash, t.Schema.Range
	if op.Index != "" {
		ix := t.Schema.FindIndex(op.Index)
		hash, rng = ix.Hash, ix.Range
	}
	if op.Kind == "Query" {
		if !pr.hasKeyCond {
			return Result{Weak: true, WeakWhy: "query without key condition"}
		}
		if why := KeyCondShape(pr.keyCond, Env{Names: op.Names, Values: op.Values}, hash, rng); why != "" {
			return exprErr("key condition shape: " + why)
		}
	}
	var out []Item
	for _, it := range t.View(op.Index) {
		env := t.env(op, it)
		if op.Kind == "Query" {
			o := EvalCond(pr.keyCond, env)
			if !o.Single() {
				return Result{Weak: true, WeakWhy: "key condition outcome " + o.String()}
			}
			if o == OE {
				return exprErr("key condition evaluation error")
			}
			if o == OF {
				continue
			}
		}
		if pr.hasFilter {
			o := EvalCond(pr.filter, env)
			if !o.Single() {
				return Result{Weak: true, WeakWhy: "filter outcome " + o.String()}
			}
			if o == OE {
				return exprErr("filter evaluation error")
			}
			if o == OF {
				continue
			}
		}
		out = append(out, it)
	}
	if len(t.View(op.Index)) == 0 && (pr.hasFilter || pr.hasKeyCond) {
		// nothing was evaluated: an expression that is statically invalid is
		// still an error in DynamoDB, but the per-item evaluator never ran
		for _, e := range []struct {
			has bool
			x   Expr
		}{{pr.hasKeyCond, pr.keyCond}, {pr.hasFilter, pr.filter}} {
			if e.has && StaticCheckCond(e.x, Env{Names: op.Names, Values: op.Values}) != nil {
				return exprErr("statically invalid expression")
			}
		}
	}
	res := Result{Items: out, Count: len(out)}
	if op.Kind == "Query" && rng != "" {
		res.OrderBy, res.OrderDesc = rng, op.Backward
		sort.SliceStable(res.Items, func(i, j int) bool {
			c, _ := CompareScalar(res.Items[i][rng], res.Items[j][rng])
			if op.Backward {
				return c > 0
			}
			return c < 0
		})
	}
	return res
}

// MetricsCanon is the rendering of the item-collection metrics the SetMetrics
// helper operation configures (one entry for each of two table names).
const MetricsCanon = "tbl2:1 tbl:1" // (sorted as strings)

func (db *DB) batchWrite(op Op) Result {
	r := db.batchWriteCore(op)
	if r.Err == "" && !r.Weak && !r.Spec && db.MetricsSet {
		r.Metrics = MetricsCanon
	}
	return r
}

func (db *DB) batchWriteCore(op Op) Result {
	n := 0
	for _, tb := range op.Batch {
		for _, r := range tb.Reqs {
			if r.Both || r.Neither {
				return errRes(ErrValidation, "write request must be exactly one of put/delete")
			}
			n++
		}
	}
	if n > 25 {
		return errRes(ErrValidation, "too many requests")
	}
	if n == 0 {
		return Result{Weak: true, WeakWhy: "empty batch"}
	}
	// validate everything first: a rejected batch applies nothing
	invalid := func() *Result {
		dup := false
		seen := map[string]bool{}
		for _, tb := range op.Batch {
			if t, ok := db.Tables[tb.Table]; ok {
				for _, r := range tb.Reqs {
					it := r.Put
					if it == nil {
						it = r.Delete
					}
					if k, ok := t.KeyOf(it); ok {
						if seen[tb.Table+"\x00"+k] {
							dup = true
						}
						seen[tb.Table+"\x00"+k] = true
					}
				}
			}
		}
		for _, tb := range op.Batch {
			t, ok := db.Tables[tb.Table]
			if !ok {
				r := errRes(ErrNotFound, "no such table "+tb.Table)
				return &r
			}
			for _, r := range tb.Reqs {
				if r.Put != nil {
					if _, ok := t.KeyOf(r.Put); !ok {
						r := errRes(ErrValidation, "malformed key in put request")
						return &r
					}
					if t.indexKeyTypeError(r.Put) {
						return &Result{Spec: true, WeakWhy: "index key attribute of the wrong type"}
					}
					if t.keySizeError(r.Put) {
						return &Result{Spec: true, WeakWhy: "key attribute value longer than DynamoDB allows"}
					}
				} else if _, ok := t.KeyOf(r.Delete); !ok {
					r := errRes(ErrValidation, "malformed key in delete request")
					return &r
				}
			}
		}
		if dup {
			// DynamoDB rejects a batch that names one key twice; no listed property demands it
			return &Result{Spec: true, WeakWhy: "the batch names one key twice"}
		}
		return nil
	}()
	if db.Failure != "" && invalid != nil {
		// whether the request's own defect or the emulated failure is reported
		// first is not decided by any listed property
		return Result{Weak: true, WeakWhy: "malformed batch under emulated failure"}
	}
	if db.Failure == "deprecated" {
		return errRes(ErrForced, "forced failure")
	}
	if db.Failure == "internal_server" {
		// every request is reported as unprocessed, nothing is applied
		res := Result{}
		for _, tb := range op.Batch {
			res.Unprocessed = append(res.Unprocessed, TableBatch{Table: tb.Table, Reqs: append([]WriteReq{}, tb.Reqs...)})
		}
		return res
	}
	if invalid != nil {
		return *invalid
	}
	for _, tb := range op.Batch {
		t := db.Tables[tb.Table]
		for _, r := range tb.Reqs {
			if r.Put != nil {
				k, _ := t.KeyOf(r.Put)
				t.Items[k] = CloneItem(r.Put)
			} else {
				k, _ := t.KeyOf(r.Delete)
				delete(t.Items, k)
			}
		}
	}
	return Result{}
}

func (db *DB) batchGet(op Op) Result {
	if r := db.failureResult(); r != nil {
		return *r
	}
	res := Result{}
	for _, tb := range op.Batch {
		t, ok := db.Tables[tb.Table]
		if !ok {
			return Result{Weak: true, WeakWhy: "BatchGet on a missing table"}
		}
		out := TableBatch{Table: tb.Table}
		for _, k := range tb.Keys {
			ck, ok := t.KeyOf(k)
			if !ok {
				return Result{Weak: true, WeakWhy: "BatchGet with a malformed key"}
			}
			if it, ok := t.Items[ck]; ok {
				out.Keys = append(out.Keys, CloneItem(it))
			}
		}
		res.Responses = append(res.Responses, out)
	}
	return res
}

// Clone deep-copies the model.
func (db *DB) Clone() *DB {
	c := &DB{Tables: make(map[string]*Table, len(db.Tables)), Failure: db.Failure, MetricsSet: db.MetricsSet}
	for n, t := range db.Tables {
		nt := &Table{Schema: t.Schema, Items: make(map[string]Item, len(t.Items))}
		nt.Schema.Attrs = make(map[string]string, len(t.Schema.Attrs))
		for k, v := range t.Schema.Attrs {
			nt.Schema.Attrs[k] = v
		}
		nt.Schema.Indexes = append([]IndexSchema{}, t.Schema.Indexes...)
		for k, it := range t.Items {
			nt.Items[k] = CloneItem(it)
		}
		c.Tables[n] = nt
	}
	return c
}

// TableNames returns the model's table names, sorted.
func (db *DB) TableNames() []string {
	out := make([]string, 0, len(db.Tables))
	for n := range db.Tables {
		out = append(out, n)
	}
	sort.Strings(out)
	return out
}

// MaxNesting is DynamoDB's limit on the nesting depth of lists and maps.
const MaxNesting = 32

// avDepth is the number of nested list / map levels of a value.
func avDepth(v AV) int {
	d := 0
	switch v.T {
	case "L":
		for _, e := range v.L {
			if x := avDepth(e); x > d {
				d = x
			}
		}
		return d + 1
	case "M":
		for _, e := range v.M {
			if x := avDepth(e); x > d {
				d = x
			}
		}
		return d + 1
	}
	return 0
}

// itemTooDeep reports whether an attribute of the item nests lists and maps
// deeper than DynamoDB accepts. No listed property demands the rejection, so
// the model marks such writes speculative.
func itemTooDeep(it Item) bool {
	for _, v := range it {
		if avDepth(v) > MaxNesting {
			return true
		}
	}
	return false
}

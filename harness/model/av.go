// Package model is the reference model of DynamoDB semantics used as the
// oracle by the property checks. It imports nothing from minidyn.
package model

import (
	"bytes"
	"encoding/hex"
	"fmt"
	"math/big"
	"sort"
	"strconv"
	"strings"
)

// AV is a DynamoDB attribute value (tagged union). T is one of
// S N B BOOL NULL L M SS NS BS. For N the decimal text is kept in S; for NS the
// member texts are in SS.
type AV struct {
	T    string        `json:"T"`
	S    string        `json:"S,omitempty"`
	B    []byte        `json:"B,omitempty"`
	Bool bool          `json:"Bool,omitempty"`
	L    []AV          `json:"L,omitempty"`
	M    map[string]AV `json:"M,omitempty"`
	SS   []string      `json:"SS,omitempty"`
	BS   [][]byte      `json:"BS,omitempty"`
}

// Item is a top-level item or key: attribute name -> value.
type Item = map[string]AV

func Str(s string) AV    { return AV{T: "S", S: s} }
func Num(s string) AV    { return AV{T: "N", S: s} }
func Bin(b []byte) AV    { return AV{T: "B", B: append([]byte{}, b...)} }
func Bool(b bool) AV     { return AV{T: "BOOL", Bool: b} }
func Null() AV           { return AV{T: "NULL"} }
func List(l ...AV) AV    { return AV{T: "L", L: append([]AV{}, l...)} }
func Map(m map[string]AV) AV {
	if m == nil {
		m = map[string]AV{}
	}
	return AV{T: "M", M: m}
}
func StrSet(s ...string) AV { return AV{T: "SS", SS: append([]string{}, s...)} }
func NumSet(s ...string) AV { return AV{T: "NS", SS: append([]string{}, s...)} }
func BinSet(b ...[]byte) AV { return AV{T: "BS", BS: append([][]byte{}, b...)} }

// Clone returns a deep copy.
func (a AV) Clone() AV {
	c := AV{T: a.T, S: a.S, Bool: a.Bool}
	if a.B != nil {
		c.B = append([]byte{}, a.B...)
	}
	if a.L != nil {
		c.L = make([]AV, len(a.L))
		for i, e := range a.L {
			c.L[i] = e.Clone()
		}
	}
	if a.M != nil {
		c.M = make(map[string]AV, len(a.M))
		for k, e := range a.M {
			c.M[k] = e.Clone()
		}
	}
	if a.SS != nil {
		c.SS = append([]string{}, a.SS...)
	}
	if a.BS != nil {
		c.BS = make([][]byte, len(a.BS))
		for i, e := range a.BS {
			c.BS[i] = append([]byte{}, e...)
		}
	}
	return c
}

// CloneItem deep-copies an item; nil stays nil.
func CloneItem(it Item) Item {
	if it == nil {
		return nil
	}
	c := make(Item, len(it))
	for k, v := range it {
		c[k] = v.Clone()
	}
	return c
}

// ---------------------------------------------------------------- decimals

// Dec is an exact decimal number.
type Dec struct{ r *big.Rat }

// ParseDec parses the numeral grammar -?digits(.digits)?([eE][+-]?digits)?
func ParseDec(s string) (Dec, bool) {
	if !validNumeral(s) {
		return Dec{}, false
	}
	r, ok := new(big.Rat).SetString(s)
	if !ok {
		return Dec{}, false
	}
	return Dec{r}, true
}

func validNumeral(s string) bool {
	i := 0
	if i < len(s) && s[i] == '-' {
		i++
	}
	d := 0
	for i < len(s) && s[i] >= '0' && s[i] <= '9' {
		i++
		d++
	}
	if d == 0 {
		return false
	}
	if i < len(s) && s[i] == '.' {
		i++
		f := 0
		for i < len(s) && s[i] >= '0' && s[i] <= '9' {
			i++
			f++
		}
		if f == 0 {
			return false
		}
	}
	if i < len(s) && (s[i] == 'e' || s[i] == 'E') {
		i++
		if i < len(s) && (s[i] == '+' || s[i] == '-') {
			i++
		}
		e := 0
		for i < len(s) && s[i] >= '0' && s[i] <= '9' {
			i++
			e++
		}
		if e == 0 || e > 4 {
			return false
		}
	}
	return i == len(s)
}

// MustDec parses or panics (generator-internal use only).
func MustDec(s string) Dec {
	d, ok := ParseDec(s)
	if !ok {
		panic("bad numeral " + s)
	}
	return d
}

func (d Dec) Cmp(o Dec) int  { return d.r.Cmp(o.r) }
func (d Dec) Add(o Dec) Dec  { return Dec{new(big.Rat).Add(d.r, o.r)} }
func (d Dec) Sub(o Dec) Dec  { return Dec{new(big.Rat).Sub(d.r, o.r)} }
func (d Dec) Sign() int      { return d.r.Sign() }
func (d Dec) Rat() *big.Rat  { return d.r }
func DecFromInt(i int64) Dec { return Dec{new(big.Rat).SetInt64(i)} }

// coefExp returns (coef, exp) with value = coef * 10^exp and coef not divisible
// by ten (0 -> (0,0)). The value must be a terminating decimal.
func (d Dec) coefExp() (*big.Int, int) {
	if d.r.Sign() == 0 {
		return new(big.Int), 0
	}
	num := new(big.Int).Set(d.r.Num())
	den := new(big.Int).Set(d.r.Denom())
	exp := 0
	ten := big.NewInt(10)
	one := big.NewInt(1)
	// scale until the denominator is one
	for den.Cmp(one) != 0 {
		num.Mul(num, ten)
		exp--
		g := new(big.Int).GCD(nil, nil, new(big.Int).Abs(num), den)
		num.Quo(num, g)
		den.Quo(den, g)
		if exp < -2000 {
			panic("non-terminating decimal")
		}
	}
	q, m := new(big.Int), new(big.Int)
	for {
		q.QuoRem(num, ten, m)
		if m.Sign() != 0 {
			break
		}
		num.Set(q)
		exp++
	}
	return num, exp
}

// Canon is a canonical text: equal values give equal strings.
func (d Dec) Canon() string {
	c, e := d.coefExp()
	return c.String() + "E" + strconv.Itoa(e)
}

// Digits is the number of significant decimal digits.
func (d Dec) Digits() int {
	c, _ := d.coefExp()
	if c.Sign() == 0 {
		return 1
	}
	return len(new(big.Int).Abs(c).String())
}

// InRange reports whether d is within DynamoDB's number domain
// (<= 38 significant digits, magnitude 1E-130 .. 9.99..E+125, or zero).
func (d Dec) InRange() bool {
	if d.r.Sign() == 0 {
		return true
	}
	if d.Digits() > 38 {
		return false
	}
	c, e := d.coefExp()
	mag := len(new(big.Int).Abs(c).String()) + e // value in [10^(mag-1), 10^mag)
	return mag-1 >= -130 && mag-1 <= 125
}

// Plain renders d in plain positional notation without exponent.
func (d Dec) Plain() string {
	c, e := d.coefExp()
	neg := c.Sign() < 0
	s := new(big.Int).Abs(c).String()
	if c.Sign() == 0 {
		return "0"
	}
	if e >= 0 {
		s += strings.Repeat("0", e)
	} else {
		k := -e
		if k >= len(s) {
			s = "0." + strings.Repeat("0", k-len(s)) + s
		} else {
			s = s[:len(s)-k] + "." + s[len(s)-k:]
		}
	}
	if neg {
		s = "-" + s
	}
	return s
}

// FloatIs reports whether the numeral's value is exactly a float64 (no
// rounding at all when parsed).
func FloatIs(text string) bool {
	d, ok := ParseDec(text)
	if !ok {
		return false
	}
	f, err := strconv.ParseFloat(text, 64)
	if err != nil {
		return false
	}
	r, ok := new(big.Rat).SetString(strconv.FormatFloat(f, 'f', -1, 64))
	if !ok {
		return false
	}
	// FormatFloat prints the shortest text that parses back to f, which need
	// not be f's exact value: compare with the exact value of f
	exact := new(big.Rat).SetFloat64(f)
	return exact != nil && exact.Cmp(d.r) == 0 && r.Cmp(d.r) == 0
}

// FloatOpExact reports whether a +/- b computed in float64 and re-serialised
// the way the implementation does it equals the exact decimal result.
func FloatOpExact(a, b string, minus bool) bool {
	x, ok1 := ParseDec(a)
	y, ok2 := ParseDec(b)
	fa, e1 := strconv.ParseFloat(a, 64)
	fb, e2 := strconv.ParseFloat(b, 64)
	if !ok1 || !ok2 || e1 != nil || e2 != nil {
		return false
	}
	var want Dec
	var got float64
	if minus {
		want, got = x.Sub(y), fa-fb
	} else {
		want, got = x.Add(y), fa+fb
	}
	back, ok := ParseDec(strconv.FormatFloat(got, 'f', -1, 64))
	return ok && back.Cmp(want) == 0
}

// FloatExact reports whether the numeral text survives a float64 round trip
// through strconv with value preserved (used for the float-architecture guard).
func FloatExact(text string) bool {
	d, ok := ParseDec(text)
	if !ok {
		return false
	}
	f, err := strconv.ParseFloat(text, 64)
	if err != nil {
		return false
	}
	back := strconv.FormatFloat(f, 'f', -1, 64)
	d2, ok := ParseDec(back)
	if !ok {
		return false
	}
	return d.Cmp(d2) == 0
}

// ---------------------------------------------------------------- equality / canon

// Equal is DynamoDB equality: type-sensitive, structural, numbers by value,
// sets unordered, lists ordered.
func Equal(a, b AV) bool {
	if a.T != b.T {
		return false
	}
	return Canon(a) == Canon(b)
}

// Canon renders a canonical, injective text for an attribute value.
func Canon(a AV) string {
	var sb strings.Builder
	canon(&sb, a)
	return sb.String()
}

func canonNum(s string) string {
	d, ok := ParseDec(s)
	if !ok {
		return "!bad(" + s + ")"
	}
	return d.Canon()
}

func canon(sb *strings.Builder, a AV) {
	switch a.T {
	case "S":
		sb.WriteString("S:")
		sb.WriteString(strconv.Quote(a.S))
	case "N":
		sb.WriteString("N:")
		sb.WriteString(canonNum(a.S))
	case "B":
		sb.WriteString("B:")
		sb.WriteString(hex.EncodeToString(a.B))
	case "BOOL":
		if a.Bool {
			sb.WriteString("BOOL:t")
		} else {
			sb.WriteString("BOOL:f")
		}
	case "NULL":
		sb.WriteString("NULL")
	case "L":
		sb.WriteString("L[")
		for i, e := range a.L {
			if i > 0 {
				sb.WriteString(",")
			}
			canon(sb, e)
		}
		sb.WriteString("]")
	case "M":
		sb.WriteString("M{")
		keys := make([]string, 0, len(a.M))
		for k := range a.M {
			keys = append(keys, k)
		}
		sort.Strings(keys)
		for i, k := range keys {
			if i > 0 {
				sb.WriteString(",")
			}
			sb.WriteString(strconv.Quote(k))
			sb.WriteString("=")
			canon(sb, a.M[k])
		}
		sb.WriteString("}")
	case "SS":
		m := append([]string{}, a.SS...)
		sort.Strings(m)
		sb.WriteString("SS{")
		for i, e := range m {
			if i > 0 {
				sb.WriteString(",")
			}
			sb.WriteString(strconv.Quote(e))
		}
		sb.WriteString("}")
	case "NS":
		m := make([]string, len(a.SS))
		for i, e := range a.SS {
			m[i] = canonNum(e)
		}
		sort.Strings(m)
		sb.WriteString("NS{")
		sb.WriteString(strings.Join(m, ","))
		sb.WriteString("}")
	case "BS":
		m := make([]string, len(a.BS))
		for i, e := range a.BS {
			m[i] = hex.EncodeToString(e)
		}
		sort.Strings(m)
		sb.WriteString("BS{")
		sb.WriteString(strings.Join(m, ","))
		sb.WriteString("}")
	default:
		sb.WriteString("?" + a.T)
	}
}

// CanonItem canonical text of an item (nil and empty are both "{}").
func CanonItem(it Item) string {
	return Canon(AV{T: "M", M: it})[1:]
}

// ItemEqual compares two items (nil == empty).
func ItemEqual(a, b Item) bool { return CanonItem(a) == CanonItem(b) }

// CanonItems canonical multiset of items (sorted).
func CanonItems(items []Item) []string {
	out := make([]string, len(items))
	for i, it := range items {
		out[i] = CanonItem(it)
	}
	sort.Strings(out)
	return out
}

// MultisetEqual compares two item lists as multisets.
func MultisetEqual(a, b []Item) bool {
	if len(a) != len(b) {
		return false
	}
	x, y := CanonItems(a), CanonItems(b)
	for i := range x {
		if x[i] != y[i] {
			return false
		}
	}
	return true
}

// CompareScalar orders two values of the same scalar type S/N/B. ok is false
// if the types differ or are not ordered.
func CompareScalar(a, b AV) (int, bool) {
	if a.T != b.T {
		return 0, false
	}
	switch a.T {
	case "S":
		return strings.Compare(a.S, b.S), true
	case "N":
		x, ok1 := ParseDec(a.S)
		y, ok2 := ParseDec(b.S)
		if !ok1 || !ok2 {
			return 0, false
		}
		return x.Cmp(y), true
	case "B":
		return bytes.Compare(a.B, b.B), true
	}
	return 0, false
}

// Describe gives a short human-readable rendering for logs.
func Describe(a AV) string { return Canon(a) }

// Walk calls f on a and every nested value.
func Walk(a AV, f func(AV)) {
	f(a)
	for _, e := range a.L {
		Walk(e, f)
	}
	for _, e := range a.M {
		Walk(e, f)
	}
}

// WalkItem calls f on every value of the item, nested included.
func WalkItem(it Item, f func(AV)) {
	for _, v := range it {
		Walk(v, f)
	}
}

// Depth is the nesting depth (scalar = 1).
func Depth(a AV) int {
	d := 0
	for _, e := range a.L {
		if x := Depth(e); x > d {
			d = x
		}
	}
	for _, e := range a.M {
		if x := Depth(e); x > d {
			d = x
		}
	}
	return d + 1
}

func (a AV) String() string { return fmt.Sprintf("%s", Canon(a)) }

package model

import (
	"bytes"
	"sort"
	"strings"
)

// Outcome is a set of possible results of evaluating a condition: DynamoDB's
// behaviour is certain when the set is a singleton; otherwise the case is
// "weakly decided" and the implementation may produce any member.
type Outcome uint8

const (
	OT Outcome = 1 // true
	OF Outcome = 2 // false
	OE Outcome = 4 // error (validation error / documented panic)
)

func (o Outcome) Single() bool { return o == OT || o == OF || o == OE }
func (o Outcome) Has(x Outcome) bool { return o&x != 0 }
func (o Outcome) String() string {
	var p []string
	if o.Has(OT) {
		p = append(p, "true")
	}
	if o.Has(OF) {
		p = append(p, "false")
	}
	if o.Has(OE) {
		p = append(p, "error")
	}
	return "{" + strings.Join(p, ",") + "}"
}

// Env is the evaluation environment of one expression.
type Env struct {
	Item   Item
	Names  map[string]string
	Values map[string]AV
}

// IsReserved reports whether a bare name is a DynamoDB reserved word.
func IsReserved(name string) bool { return reservedSet[strings.ToUpper(name)] }

// StaticError describes why an expression is statically invalid.
type StaticError struct{ Reason, Detail string }

func (e *StaticError) Error() string { return e.Reason + ": " + e.Detail }

const (
	StaticUndefName  = "undefined-name-placeholder"
	StaticUndefValue = "undefined-value-placeholder"
	StaticReserved   = "reserved-word"
	StaticReservedNested = "reserved-word-nested"
)

// walkExpr visits every node.
func walkExpr(e Expr, f func(Expr)) {
	if e == nil {
		return
	}
	f(e)
	switch x := e.(type) {
	case Cmp:
		walkExpr(x.L, f)
		walkExpr(x.R, f)
	case Between:
		walkExpr(x.V, f)
		walkExpr(x.Lo, f)
		walkExpr(x.Hi, f)
	case In:
		walkExpr(x.V, f)
		for _, a := range x.List {
			walkExpr(a, f)
		}
	case Logic:
		walkExpr(x.L, f)
		walkExpr(x.R, f)
	case Not:
		walkExpr(x.X, f)
	case Func:
		for _, a := range x.Args {
			walkExpr(a, f)
		}
	case Paren:
		walkExpr(x.X, f)
	case Arith:
		walkExpr(x.L, f)
		walkExpr(x.R, f)
	}
}

// WalkUpdate visits every expression node of an update (targets included).
func WalkUpdate(u Update, f func(Expr)) {
	for _, c := range u.Clauses {
		for _, a := range c.Actions {
			f(a.Path)
			walkExpr(a.Value, f)
		}
	}
}

// UsedPlaceholders returns the #names and :values that occur in the nodes.
func UsedPlaceholders(walk func(func(Expr))) (names, values map[string]bool) {
	names, values = map[string]bool{}, map[string]bool{}
	walk(func(e Expr) {
		switch x := e.(type) {
		case Path:
			for _, el := range x.Elems {
				if !el.IsIndex && strings.HasPrefix(el.Name, "#") {
					names[el.Name] = true
				}
			}
		case ValueRef:
			values[x.Name] = true
		}
	})
	return
}

// staticCheck finds undefined placeholders and reserved words.
func staticCheck(walk func(func(Expr)), env Env) *StaticError {
	var serr *StaticError
	set := func(r, d string) {
		if serr == nil {
			serr = &StaticError{r, d}
		}
	}
	walk(func(e Expr) {
		switch x := e.(type) {
		case Path:
			for i, el := range x.Elems {
				if el.IsIndex {
					continue
				}
				if strings.HasPrefix(el.Name, "#") {
					if _, ok := env.Names[el.Name]; !ok {
						set(StaticUndefName, el.Name)
					}
					continue
				}
				if IsReserved(el.Name) {
					if i == 0 {
						set(StaticReserved, el.Name)
					} else {
						set(StaticReservedNested, el.Name)
					}
				}
			}
		case ValueRef:
			if _, ok := env.Values[x.Name]; !ok {
				set(StaticUndefValue, x.Name)
			}
		}
	})
	return serr
}

// StaticCheckCond reports why a parsed condition is statically invalid.
func StaticCheckCond(e Expr, env Env) *StaticError {
	return staticCheck(func(f func(Expr)) { walkExpr(e, f) }, env)
}

// StaticCheckUpdate reports why a parsed update is statically invalid.
func StaticCheckUpdate(u Update, env Env) *StaticError {
	return staticCheck(func(f func(Expr)) { WalkUpdate(u, f) }, env)
}

// ---------------------------------------------------------------- paths

// ResolvedElem is a path element with aliases resolved.
type ResolvedElem struct {
	Name    string
	Index   int
	IsIndex bool
}

func (env Env) resolvePath(p Path) ([]ResolvedElem, bool) {
	out := make([]ResolvedElem, len(p.Elems))
	for i, el := range p.Elems {
		if el.IsIndex {
			out[i] = ResolvedElem{Index: el.Index, IsIndex: true}
			continue
		}
		n := el.Name
		if strings.HasPrefix(n, "#") {
			v, ok := env.Names[n]
			if !ok {
				return nil, false
			}
			n = v
		}
		out[i] = ResolvedElem{Name: n}
	}
	return out, true
}

// lookup walks the resolved path through the item. found=false means the path
// does not resolve ("missing"). wrongKind is set when a step was applied to an
// existing value of the wrong container kind.
func lookup(item Item, path []ResolvedElem) (v AV, found bool, wrongKind bool) {
	cur, ok := item[path[0].Name]
	if !ok {
		return AV{}, false, false
	}
	for _, el := range path[1:] {
		if el.IsIndex {
			if cur.T != "L" {
				return AV{}, false, true
			}
			if el.Index >= len(cur.L) {
				return AV{}, false, false
			}
			cur = cur.L[el.Index]
			continue
		}
		if cur.T != "M" {
			return AV{}, false, true
		}
		n, ok := cur.M[el.Name]
		if !ok {
			return AV{}, false, false
		}
		cur = n
	}
	return cur, true, false
}

// ---------------------------------------------------------------- operands

type opStatus int

const (
	stOK opStatus = iota
	stMissing
	stWeak // DynamoDB's treatment is uncertain: error or "no value"
	stErr
)

type operand struct {
	v       AV
	st      opStatus
	isValue bool // came from a :value placeholder
	isPath  bool
}

func (env Env) evalOperand(e Expr) operand {
	switch x := e.(type) {
	case Paren:
		return env.evalOperand(x.X)
	case Path:
		rp, ok := env.resolvePath(x)
		if !ok {
			return operand{st: stErr}
		}
		v, found, _ := lookup(env.Item, rp)
		if !found {
			return operand{st: stMissing, isPath: true}
		}
		return operand{v: v, st: stOK, isPath: true}
	case ValueRef:
		v, ok := env.Values[x.Name]
		if !ok {
			return operand{st: stErr}
		}
		return operand{v: v, st: stOK, isValue: true}
	case Func:
		if x.Name != "size" || len(x.Args) != 1 {
			return operand{st: stErr}
		}
		a := env.evalOperand(x.Args[0])
		switch a.st {
		case stErr:
			return operand{st: stErr}
		case stMissing, stWeak:
			return operand{st: stWeak}
		}
		n := -1
		switch a.v.T {
		case "S":
			for i := 0; i < len(a.v.S); i++ {
				if a.v.S[i] >= 0x80 {
					return operand{st: stWeak} // bytes vs characters: not asserted
				}
			}
			n = len(a.v.S)
		case "B":
			n = len(a.v.B)
		case "SS", "NS":
			n = len(a.v.SS)
		case "BS":
			n = len(a.v.BS)
		case "L":
			n = len(a.v.L)
		case "M":
			n = len(a.v.M)
		default:
			return operand{st: stWeak}
		}
		return operand{v: Num(itoa(n)), st: stOK}
	}
	return operand{st: stErr}
}

func itoa(n int) string {
	return DecFromInt(int64(n)).Plain()
}

var typeNames = map[string]bool{"S": true, "N": true, "B": true, "BOOL": true, "NULL": true, "L": true, "M": true, "SS": true, "NS": true, "BS": true}

func b2o(b bool) Outcome {
	if b {
		return OT
	}
	return OF
}

// EvalCond evaluates a parsed condition against env. Static errors
// (undefined placeholders, reserved words) give OE.
func EvalCond(e Expr, env Env) Outcome {
	if StaticCheckCond(e, env) != nil {
		return OE
	}
	return env.eval(e)
}

func (env Env) eval(e Expr) Outcome {
	switch x := e.(type) {
	case Paren:
		return env.eval(x.X)
	case Not:
		o := env.eval(x.X)
		var r Outcome
		if o.Has(OT) {
			r |= OF
		}
		if o.Has(OF) {
			r |= OT
		}
		if o.Has(OE) {
			r |= OE
		}
		return r
	case Logic:
		l, r := env.eval(x.L), env.eval(x.R)
		var out Outcome
		for _, a := range []Outcome{OT, OF, OE} {
			if !l.Has(a) {
				continue
			}
			for _, b := range []Outcome{OT, OF, OE} {
				if !r.Has(b) {
					continue
				}
				if a == OE || b == OE {
					out |= OE
					// short-circuit tolerance
					if x.Op == "AND" && (a == OF || b == OF) {
						out |= OF
					}
					if x.Op == "OR" && (a == OT || b == OT) {
						out |= OT
					}
					continue
				}
				if x.Op == "AND" {
					out |= b2o(a == OT && b == OT)
				} else {
					out |= b2o(a == OT || b == OT)
				}
			}
		}
		return out
	case Cmp:
		return env.evalCmp(x)
	case Between:
		return env.evalBetween(x)
	case In:
		return env.evalIn(x)
	case Func:
		return env.evalFunc(x)
	}
	return OE
}

func (env Env) evalCmp(x Cmp) Outcome {
	l, r := env.evalOperand(x.L), env.evalOperand(x.R)
	if l.st == stErr || r.st == stErr {
		return OE
	}
	if l.st == stWeak || r.st == stWeak {
		return OT | OF | OE
	}
	missing := l.st == stMissing || r.st == stMissing
	switch x.Op {
	case "=", "<>":
		var eq bool
		if !missing {
			if l.v.T != r.v.T && l.isValue && r.isValue {
				// two literals of different types: may be rejected statically
				if x.Op == "=" {
					return OF | OE
				}
				return OT | OE
			}
			eq = Equal(l.v, r.v)
		}
		if x.Op == "=" {
			return b2o(!missing && eq)
		}
		return b2o(missing || !eq)
	}
	// ordering exists only within S, N and B: an operand of another type may
	// be rejected outright
	for _, o := range []operand{l, r} {
		if o.st == stOK && o.v.T != "S" && o.v.T != "N" && o.v.T != "B" {
			return OF | OE
		}
	}
	if missing {
		return OF
	}
	c, ok := CompareScalar(l.v, r.v)
	if !ok {
		return OF | OE
	}
	switch x.Op {
	case "<":
		return b2o(c < 0)
	case "<=":
		return b2o(c <= 0)
	case ">":
		return b2o(c > 0)
	case ">=":
		return b2o(c >= 0)
	}
	return OE
}

func (env Env) evalBetween(x Between) Outcome {
	v, lo, hi := env.evalOperand(x.V), env.evalOperand(x.Lo), env.evalOperand(x.Hi)
	if v.st == stErr || lo.st == stErr || hi.st == stErr {
		return OE
	}
	if v.st == stWeak || lo.st == stWeak || hi.st == stWeak {
		return OT | OF | OE
	}
	for _, o := range []operand{v, lo, hi} {
		if o.st == stOK && o.v.T != "S" && o.v.T != "N" && o.v.T != "B" {
			return OF | OE
		}
	}
	if lo.st == stMissing || hi.st == stMissing {
		return OF | OE
	}
	if v.st == stMissing {
		return OF
	}
	c1, ok1 := CompareScalar(lo.v, v.v)
	c2, ok2 := CompareScalar(v.v, hi.v)
	c3, ok3 := CompareScalar(lo.v, hi.v)
	if !ok1 || !ok2 || !ok3 || c3 > 0 {
		return OF | OE
	}
	return b2o(c1 <= 0 && c2 <= 0)
}

func (env Env) evalIn(x In) Outcome {
	v := env.evalOperand(x.V)
	if v.st == stErr {
		return OE
	}
	weak := v.st == stWeak
	found := false
	for _, a := range x.List {
		o := env.evalOperand(a)
		if o.st == stErr {
			return OE
		}
		if o.st == stWeak {
			weak = true
			continue
		}
		if o.st == stOK && v.st == stOK && Equal(o.v, v.v) {
			found = true
		}
	}
	if weak {
		return OT | OF | OE
	}
	if v.st == stMissing {
		return OF
	}
	return b2o(found)
}

func (env Env) evalFunc(x Func) Outcome {
	arity, ok := condFuncs[x.Name]
	if !ok || len(x.Args) != arity || x.Name == "size" {
		return OE
	}
	switch x.Name {
	case "attribute_exists", "attribute_not_exists":
		a := env.evalOperand(x.Args[0])
		if a.st == stErr {
			return OE
		}
		if !a.isPath {
			return OT | OF | OE
		}
		exists := a.st == stOK
		if x.Name == "attribute_exists" {
			return b2o(exists)
		}
		return b2o(!exists)
	case "attribute_type":
		p, t := env.evalOperand(x.Args[0]), env.evalOperand(x.Args[1])
		if p.st == stErr || t.st == stErr {
			return OE
		}
		if !t.isValue {
			return OT | OF | OE
		}
		if t.v.T != "S" || !typeNames[t.v.S] {
			return OF | OE
		}
		if p.st == stWeak {
			return OT | OF | OE
		}
		if p.st == stMissing {
			return OF
		}
		return b2o(p.v.T == t.v.S)
	case "begins_with":
		p, s := env.evalOperand(x.Args[0]), env.evalOperand(x.Args[1])
		if p.st == stErr || s.st == stErr {
			return OE
		}
		if p.st == stWeak || s.st == stWeak {
			return OT | OF | OE
		}
		if s.st == stMissing {
			return OF | OE
		}
		if s.v.T != "S" && s.v.T != "B" {
			return OF | OE
		}
		if p.st == stMissing {
			return OF
		}
		if p.v.T == s.v.T {
			if p.v.T == "S" {
				return b2o(strings.HasPrefix(p.v.S, s.v.S))
			}
			return b2o(bytes.HasPrefix(p.v.B, s.v.B))
		}
		// the attribute has another type: false in DynamoDB as far as this
		// model knows, but not asserted
		return OF | OE
	case "contains":
		p, o := env.evalOperand(x.Args[0]), env.evalOperand(x.Args[1])
		if p.st == stErr || o.st == stErr {
			return OE
		}
		if p.st == stWeak || o.st == stWeak {
			return OT | OF | OE
		}
		if p.st == stMissing {
			if o.st == stMissing {
				return OF | OE
			}
			return OF
		}
		if o.st == stMissing {
			return OF | OE
		}
		switch {
		case p.v.T == "S" && o.v.T == "S":
			return b2o(strings.Contains(p.v.S, o.v.S))
		case p.v.T == "B" && o.v.T == "B":
			return b2o(bytes.Contains(p.v.B, o.v.B))
		case p.v.T == "SS" && o.v.T == "S":
			for _, m := range p.v.SS {
				if m == o.v.S {
					return OT
				}
			}
			return OF
		case p.v.T == "NS" && o.v.T == "N":
			for _, m := range p.v.SS {
				if Equal(Num(m), o.v) {
					return OT
				}
			}
			return OF
		case p.v.T == "BS" && o.v.T == "B":
			for _, m := range p.v.BS {
				if bytes.Equal(m, o.v.B) {
					return OT
				}
			}
			return OF
		case p.v.T == "L":
			for _, m := range p.v.L {
				if Equal(m, o.v) {
					return OT
				}
			}
			return OF
		case setType(p.v.T) && p.v.T == o.v.T:
			// a set operand against a set attribute: the implementation treats
			// it as a subset test (pinned by its own tests); what DynamoDB does
			// is not certain to this model - not asserted
			return OT | OF | OE
		}
		return OF | OE
	}
	return OE
}

// ---------------------------------------------------------------- updates

// UpdateResult is the model's verdict on an update expression.
type UpdateResult struct {
	Item Item // new item when !Err
	Err  bool
	Weak bool // outcome not asserted (either success or error acceptable, item unchecked)
	// Spec: DynamoDB rejects the update for an operand-type reason that no
	// listed property demands; if the implementation rejects it nothing may
	// change, if it accepts it the case cannot be followed further.
	Spec bool
	Why  string
}

func pathOverlap(a, b []ResolvedElem) bool {
	n := len(a)
	if len(b) < n {
		n = len(b)
	}
	for i := 0; i < n; i++ {
		if a[i] != b[i] {
			return false
		}
	}
	return true
}

func (env Env) evalSetValue(e Expr) (AV, opStatus, string) {
	switch x := e.(type) {
	case Paren:
		return env.evalSetValue(x.X)
	case Path:
		o := env.evalOperand(x)
		if o.st == stMissing {
			return AV{}, stErr, "SET from a missing attribute"
		}
		return o.v, o.st, "path operand"
	case ValueRef:
		o := env.evalOperand(x)
		return o.v, o.st, "value operand"
	case Arith:
		l, ls, _ := env.evalSetValue(x.L)
		r, rs, _ := env.evalSetValue(x.R)
		if ls == stErr || rs == stErr {
			return AV{}, stErr, "arithmetic operand error"
		}
		if ls != stOK || rs != stOK {
			return AV{}, stWeak, "arithmetic operand weak"
		}
		if l.T != "N" || r.T != "N" {
			return AV{}, stErr, "arithmetic on non-number"
		}
		a, ok1 := ParseDec(l.S)
		b, ok2 := ParseDec(r.S)
		if !ok1 || !ok2 {
			return AV{}, stWeak, "malformed numeral"
		}
		var res Dec
		if x.Op == "+" {
			res = a.Add(b)
		} else {
			res = a.Sub(b)
		}
		if !res.InRange() {
			return AV{}, stWeak, "arithmetic result out of the number domain"
		}
		return Num(res.Plain()), stOK, ""
	case Func:
		switch x.Name {
		case "if_not_exists":
			if len(x.Args) != 2 {
				return AV{}, stErr, "arity"
			}
			p, isPath := x.Args[0].(Path)
			if !isPath {
				return AV{}, stWeak, "if_not_exists on a non-path"
			}
			o := env.evalOperand(p)
			if o.st == stErr {
				return AV{}, stErr, "if_not_exists path error"
			}
			if o.st == stOK {
				return o.v, stOK, ""
			}
			return env.evalSetValue(x.Args[1])
		case "list_append":
			if len(x.Args) != 2 {
				return AV{}, stErr, "arity"
			}
			a, as, _ := env.evalSetValue(x.Args[0])
			b, bs, _ := env.evalSetValue(x.Args[1])
			if as == stErr || bs == stErr {
				return AV{}, stErr, "list_append operand error"
			}
			if as != stOK || bs != stOK {
				return AV{}, stWeak, "list_append operand weak"
			}
			if a.T != "L" || b.T != "L" {
				return AV{}, stErr, "list_append on non-list"
			}
			out := List()
			for _, e := range a.L {
				out.L = append(out.L, e.Clone())
			}
			for _, e := range b.L {
				out.L = append(out.L, e.Clone())
			}
			return out, stOK, ""
		}
		return AV{}, stErr, "function not allowed in update"
	}
	return AV{}, stErr, "unsupported SET value"
}

// setAt assigns v at path inside the item (path non-empty). Returns false if
// the parent does not resolve to a container of the right kind.
func setAt(item Item, path []ResolvedElem, v AV) bool {
	if len(path) == 1 {
		item[path[0].Name] = v
		return true
	}
	root, ok := item[path[0].Name]
	if !ok {
		return false
	}
	nv, ok := setIn(root, path[1:], v)
	if !ok {
		return false
	}
	item[path[0].Name] = nv
	return true
}

func setIn(cur AV, path []ResolvedElem, v AV) (AV, bool) {
	el := path[0]
	if el.IsIndex {
		if cur.T != "L" {
			return cur, false
		}
		if len(path) == 1 {
			if el.Index < len(cur.L) {
				cur.L[el.Index] = v
			} else {
				cur.L = append(cur.L, v)
			}
			return cur, true
		}
		if el.Index >= len(cur.L) {
			return cur, false
		}
		nv, ok := setIn(cur.L[el.Index], path[1:], v)
		if !ok {
			return cur, false
		}
		cur.L[el.Index] = nv
		return cur, true
	}
	if cur.T != "M" {
		return cur, false
	}
	if len(path) == 1 {
		cur.M[el.Name] = v
		return cur, true
	}
	child, ok := cur.M[el.Name]
	if !ok {
		return cur, false
	}
	nv, ok := setIn(child, path[1:], v)
	if !ok {
		return cur, false
	}
	cur.M[el.Name] = nv
	return cur, true
}

// removeAt removes the value at path. result: 0 removed / no-op on a missing
// last element, 1 parent exists with the wrong kind, 2 a parent is missing.
func removeAt(item Item, path []ResolvedElem) int {
	if len(path) == 1 {
		delete(item, path[0].Name)
		return 0
	}
	root, ok := item[path[0].Name]
	if !ok {
		return 2
	}
	nv, code := removeIn(root, path[1:])
	item[path[0].Name] = nv
	return code
}

func removeIn(cur AV, path []ResolvedElem) (AV, int) {
	el := path[0]
	if el.IsIndex {
		if cur.T != "L" {
			return cur, 1
		}
		if el.Index >= len(cur.L) {
			if len(path) > 1 {
				return cur, 2
			}
			return cur, 0
		}
		if len(path) == 1 {
			cur.L = append(cur.L[:el.Index:el.Index], cur.L[el.Index+1:]...)
			return cur, 0
		}
		nv, code := removeIn(cur.L[el.Index], path[1:])
		cur.L[el.Index] = nv
		return cur, code
	}
	if cur.T != "M" {
		return cur, 1
	}
	child, ok := cur.M[el.Name]
	if !ok {
		if len(path) > 1 {
			return cur, 2
		}
		return cur, 0
	}
	if len(path) == 1 {
		delete(cur.M, el.Name)
		return cur, 0
	}
	nv, code := removeIn(child, path[1:])
	cur.M[el.Name] = nv
	return cur, code
}

func setType(t string) bool { return t == "SS" || t == "NS" || t == "BS" }

func setUnion(a, b AV) AV {
	out := a.Clone()
	switch a.T {
	case "SS":
		for _, m := range b.SS {
			f := false
			for _, x := range out.SS {
				if x == m {
					f = true
				}
			}
			if !f {
				out.SS = append(out.SS, m)
			}
		}
	case "NS":
		for _, m := range b.SS {
			f := false
			for _, x := range out.SS {
				if Equal(Num(x), Num(m)) {
					f = true
				}
			}
			if !f {
				out.SS = append(out.SS, m)
			}
		}
	case "BS":
		for _, m := range b.BS {
			f := false
			for _, x := range out.BS {
				if bytes.Equal(x, m) {
					f = true
				}
			}
			if !f {
				out.BS = append(out.BS, append([]byte{}, m...))
			}
		}
	}
	return out
}

func setDiff(a, b AV) AV {
	out := AV{T: a.T}
	switch a.T {
	case "SS":
		for _, x := range a.SS {
			f := false
			for _, m := range b.SS {
				if x == m {
					f = true
				}
			}
			if !f {
				out.SS = append(out.SS, x)
			}
		}
	case "NS":
		for _, x := range a.SS {
			f := false
			for _, m := range b.SS {
				if Equal(Num(x), Num(m)) {
					f = true
				}
			}
			if !f {
				out.SS = append(out.SS, x)
			}
		}
	case "BS":
		for _, x := range a.BS {
			f := false
			for _, m := range b.BS {
				if bytes.Equal(x, m) {
					f = true
				}
			}
			if !f {
				out.BS = append(out.BS, append([]byte{}, x...))
			}
		}
	}
	return out
}

func setLen(a AV) int {
	if a.T == "BS" {
		return len(a.BS)
	}
	return len(a.SS)
}

// ApplyUpdate applies a parsed update expression to base (the stored item, or
// the key attributes for an absent item). keyAttrs are the table's key
// attribute names: an action that targets one of them is an error. base is
// not modified.
func ApplyUpdate(u Update, base Item, env Env, keyAttrs []string) UpdateResult {
	env.Item = base
	if se := StaticCheckUpdate(u, env); se != nil {
		return UpdateResult{Err: true, Why: se.Error()}
	}
	if len(u.Clauses) == 0 {
		return UpdateResult{Err: true, Why: "empty update"}
	}
	type act struct {
		kind string
		path []ResolvedElem
		val  Expr
	}
	var acts []act
	for _, c := range u.Clauses {
		for _, a := range c.Actions {
			rp, ok := env.resolvePath(a.Path)
			if !ok {
				return UpdateResult{Err: true, Why: "undefined alias"}
			}
			acts = append(acts, act{c.Kind, rp, a.Value})
		}
	}
	weak := false
	why := ""
	for i := range acts {
		for _, k := range keyAttrs {
			if acts[i].path[0].Name == k {
				return UpdateResult{Err: true, Why: "update targets key attribute " + k}
			}
		}
		for j := i + 1; j < len(acts); j++ {
			if pathOverlap(acts[i].path, acts[j].path) {
				return UpdateResult{Weak: true, Why: "overlapping paths"}
			}
		}
	}
	work := CloneItem(base)
	if work == nil {
		work = Item{}
	}
	// an append-SET together with another indexed action on the same list: not asserted
	for i, a := range acts {
		if a.kind != "SET" || !a.path[len(a.path)-1].IsIndex {
			continue
		}
		parent, found, _ := lookup(base, a.path[:len(a.path)-1])
		if !found || parent.T != "L" || a.path[len(a.path)-1].Index < len(parent.L) {
			continue
		}
		for j, b := range acts {
			if i != j && (b.kind == "REMOVE" || b.kind == "SET") && b.path[len(b.path)-1].IsIndex &&
				len(b.path) == len(a.path) && pathOverlap(a.path[:len(a.path)-1], b.path[:len(b.path)-1]) {
				weak = true
				why = "append-SET combined with another indexed action on the same list"
			}
		}
	}
	// 1. evaluate every right-hand side on the pre-update item
	vals := make([]AV, len(acts))
	for i, a := range acts {
		switch a.kind {
		case "SET":
			v, st, w := env.evalSetValue(a.val)
			if st == stErr {
				return UpdateResult{Spec: true, Why: w}
			}
			if st != stOK {
				weak, why = true, w
			}
			vals[i] = v.Clone()
		case "ADD", "DELETE":
			o := env.evalOperand(a.val)
			if o.st != stOK {
				return UpdateResult{Spec: true, Why: "ADD/DELETE operand"}
			}
			cur, found, wrong := lookup(base, a.path)
			if last := a.path[len(a.path)-1]; last.IsIndex && !found {
				weak, why = true, "ADD/DELETE on a list element past the end"
			}
			if !found && len(a.path) > 1 {
				_, pfound, _ := lookup(base, a.path[:len(a.path)-1])
				if !pfound || wrong {
					weak, why = true, "ADD/DELETE below a missing parent"
				}
			}
			if a.kind == "ADD" {
				switch {
				case !found:
					if o.v.T != "N" && !setType(o.v.T) {
						return UpdateResult{Spec: true, Why: "ADD of a non-number, non-set"}
					}
					vals[i] = o.v.Clone()
				case cur.T == "N" && o.v.T == "N":
					x, ok1 := ParseDec(cur.S)
					y, ok2 := ParseDec(o.v.S)
					if !ok1 || !ok2 {
						weak, why = true, "malformed numeral"
						break
					}
					s := x.Add(y)
					if !s.InRange() {
						weak, why = true, "ADD result out of the number domain"
					}
					vals[i] = Num(s.Plain())
				case setType(cur.T) && cur.T == o.v.T:
					vals[i] = setUnion(cur, o.v)
				default:
					return UpdateResult{Spec: true, Why: "ADD type mismatch"}
				}
			} else {
				if !setType(o.v.T) {
					return UpdateResult{Spec: true, Why: "DELETE operand is not a set"}
				}
				switch {
				case !found:
					vals[i] = AV{} // no-op marker (T == "")
				case cur.T == o.v.T:
					vals[i] = setDiff(cur, o.v)
				default:
					return UpdateResult{Spec: true, Why: "DELETE type mismatch"}
				}
			}
		}
	}
	// 2. apply SET / ADD / DELETE
	var emptied []act
	for i, a := range acts {
		switch a.kind {
		case "SET", "ADD":
			if !setAt(work, a.path, vals[i]) {
				return UpdateResult{Spec: true, Why: "document path does not resolve for assignment"}
			}
		case "DELETE":
			if vals[i].T == "" {
				continue
			}
			if setLen(vals[i]) == 0 {
				// the set became empty: the attribute (or list element) goes away,
				// together with the REMOVE actions (positions refer to the pre-update lists)
				emptied = append(emptied, act{kind: "REMOVE", path: a.path})
			} else if !setAt(work, a.path, vals[i]) {
				return UpdateResult{Spec: true, Why: "document path does not resolve for DELETE"}
			}
		}
	}
	// 3. REMOVEs, higher list indexes first so that indexes keep referring to
	// the pre-update list
	rem := emptied
	for _, a := range acts {
		if a.kind == "REMOVE" {
			rem = append(rem, a)
		}
	}
	var remIdx, remOther []act
	for _, a := range rem {
		if a.path[len(a.path)-1].IsIndex {
			remIdx = append(remIdx, a)
		} else {
			remOther = append(remOther, a)
		}
	}
	sort.SliceStable(remIdx, func(i, j int) bool {
		return remIdx[i].path[len(remIdx[i].path)-1].Index > remIdx[j].path[len(remIdx[j].path)-1].Index
	})
	rem = append(remIdx, remOther...)
	for _, a := range rem {
		switch removeAt(work, a.path) {
		case 1:
			weak, why = true, "REMOVE through a value of the wrong kind"
		case 2:
			weak, why = true, "REMOVE below a missing parent"
		}
	}
	return UpdateResult{Item: work, Weak: weak, Why: why}
}

// Package gen holds the rapid generators shared by the property checks.
package gen

import (
	"strings"

	"pgregory.net/rapid"

	"verifharness/model"
)

// AVOpts restricts the attribute-value generator. The restrictions exist only
// to keep cases outside the guards of open known findings; with all flags
// false the whole domain is generated.
type AVOpts struct {
	Depth         int  // maximum nesting depth (1 = scalars and sets only)
	FloatExact    bool // only numerals that are exactly representable as float64
	NoEmptyBin    bool // no empty binary values
	NoEmptyLM     bool // no empty lists / maps
	CanonNumerals bool // only canonical plain numerals
	ASCII         bool // ASCII-only strings
}

var strPool = []string{"", "a", "b", "ab", "abc", "a.b", "b.c", "a|b", " a", "a ", "A", "0", "10", "9", "[1 2]", "%v", "é", "日本", "x-y_z", "a.b.c", "#h", ":v", "foo", "bar", "baz"}
var asciiStrPool = []string{"", "a", "b", "ab", "abc", "a.b", "b.c", "a|b", " a", "a ", "A", "0", "10", "9", "[1 2]", "%v", "x-y_z", "foo", "bar", "baz"}

// Str generates strings biased to a small pool (collisions matter) with some
// free-form ones.
func Str(ascii bool) *rapid.Generator[string] {
	pool := strPool
	if ascii {
		pool = asciiStrPool
	}
	return rapid.OneOf(
		rapid.SampledFrom(pool),
		rapid.SampledFrom(pool),
		rapid.StringMatching(`[a-c]{1,3}`),
		rapid.Custom(func(t *rapid.T) string {
			if ascii {
				return rapid.StringMatching(`[ -~]{0,6}`).Draw(t, "s")
			}
			return rapid.StringN(0, 6, -1).Draw(t, "s")
		}),
	)
}

// NonEmptyStr generates non-empty strings (key positions).
func NonEmptyStr(ascii bool) *rapid.Generator[string] {
	return Str(ascii).Filter(func(s string) bool { return s != "" })
}

var binPool = [][]byte{{}, {0}, {1}, {1, 2}, {2}, {255}, {0x80, 0}, {10}, {9}, {1, 2, 3}, {97}, {0x7f, 0x80}}

// Bytes generates binary values.
func Bytes(allowEmpty bool) *rapid.Generator[[]byte] {
	g := rapid.OneOf(
		rapid.SampledFrom(binPool),
		rapid.SliceOfN(rapid.Byte(), 0, 5),
	)
	if allowEmpty {
		return g
	}
	return g.Filter(func(b []byte) bool { return len(b) > 0 })
}

// Numeral classes.
const (
	NumSmallInt = 1 << iota
	NumInt
	NumLeadingZeros
	NumTrailingZeros
	NumBinFraction
	NumDecFraction
	NumExponent
	NumNegZero
	NumBig
	NumExtreme
	NumAll = 1<<iota - 1
)

// NumeralClass draws a numeral of one of the classes in mask and reports the class.
func NumeralClass(t *rapid.T, mask int, label string) (string, int) {
	var classes []int
	for c := 1; c <= NumExtreme; c <<= 1 {
		if mask&c != 0 {
			classes = append(classes, c)
			if c == NumSmallInt {
				classes = append(classes, c, c) // weight
			}
		}
	}
	c := rapid.SampledFrom(classes).Draw(t, label+"Class")
	sign := ""
	if rapid.IntRange(0, 4).Draw(t, label+"Neg") == 0 {
		sign = "-"
	}
	switch c {
	case NumSmallInt:
		return sign + itoa(rapid.IntRange(0, 12).Draw(t, label)), c
	case NumInt:
		return sign + rapid.StringMatching(`[1-9][0-9]{1,9}`).Draw(t, label), c
	case NumLeadingZeros:
		return sign + rapid.StringMatching(`0{1,3}[0-9]{1,4}`).Draw(t, label), c
	case NumTrailingZeros:
		return sign + rapid.StringMatching(`[0-9]{1,3}\.[0-9]{0,2}0{1,3}`).Draw(t, label), c
	case NumBinFraction:
		return sign + rapid.StringMatching(`[0-9]{1,3}`).Draw(t, label) + rapid.SampledFrom([]string{".5", ".25", ".75", ".125", ".375", ".0625"}).Draw(t, label+"F"), c
	case NumDecFraction:
		return sign + rapid.StringMatching(`[0-9]{1,3}\.[0-9]{1,4}`).Draw(t, label), c
	case NumExponent:
		return sign + rapid.StringMatching(`[1-9][0-9]{0,2}(\.[0-9]{1,2})?[eE][+-]?[0-9]{1,2}`).Draw(t, label), c
	case NumNegZero:
		return rapid.SampledFrom([]string{"-0", "-0.0", "-0e0", "0.0", "0e5", "00"}).Draw(t, label), c
	case NumBig:
		n := rapid.IntRange(17, 38).Draw(t, label+"Len")
		digits := rapid.StringMatching(`[1-9][0-9]{37}`).Draw(t, label)[:n]
		if rapid.Bool().Draw(t, label+"Pt") {
			k := rapid.IntRange(1, n-1).Draw(t, label+"K")
			digits = digits[:k] + "." + digits[k:]
		}
		return sign + digits, c
	default: // NumExtreme
		return sign + rapid.SampledFrom([]string{"1E-130", "1e-130", "9.9999999999999999999999999999999999999E+125", "1E125", "1e-100", "123E-128", "5E+124",
			"1" + strings.Repeat("0", 40), "12" + strings.Repeat("0", 60), "0." + strings.Repeat("0", 50) + "7", "1700000000001", "1700000000002", "10000000000000000000"}).Draw(t, label), c
	}
}

func itoa(n int) string {
	return model.DecFromInt(int64(n)).Plain()
}

// Numeral draws a numeral under the options.
func Numeral(t *rapid.T, o AVOpts, label string) string {
	mask := NumAll
	if o.CanonNumerals {
		mask = NumSmallInt | NumInt | NumBinFraction | NumDecFraction
	}
	for i := 0; ; i++ {
		s, _ := NumeralClass(t, mask, label)
		if o.CanonNumerals {
			s = model.MustDec(s).Plain()
		}
		if o.FloatExact && !model.FloatExact(s) {
			if i > 20 {
				return "7"
			}
			continue
		}
		return s
	}
}

func distinctStrings(t *rapid.T, g *rapid.Generator[string], n int, label string, eq func(a, b string) bool) []string {
	var out []string
	for i := 0; len(out) < n && i < n*4; i++ {
		s := g.Draw(t, label)
		dup := false
		for _, x := range out {
			if eq(x, s) {
				dup = true
			}
		}
		if !dup {
			out = append(out, s)
		}
	}
	return out
}

// AV draws an attribute value.
func AV(t *rapid.T, o AVOpts, label string) model.AV {
	max := 9
	if o.Depth <= 1 {
		max = 7
	}
	k := rapid.SampledFrom([]int{0, 0, 0, 1, 1, 1, 2, 3, 4, 5, 6, 7, 8, 9}).Filter(func(k int) bool { return k <= max }).Draw(t, label+"Kind")
	switch k {
	case 0:
		return model.Str(Str(o.ASCII).Draw(t, label+"S"))
	case 1:
		return model.Num(Numeral(t, o, label+"N"))
	case 2:
		return model.Bool(rapid.Bool().Draw(t, label+"B"))
	case 3:
		return model.Null()
	case 4:
		return model.Bin(Bytes(!o.NoEmptyBin).Draw(t, label+"Bin"))
	case 5:
		n := rapid.IntRange(1, 3).Draw(t, label+"SSn")
		m := distinctStrings(t, Str(o.ASCII), n, label+"SS", func(a, b string) bool { return a == b })
		return model.StrSet(m...)
	case 6:
		n := rapid.IntRange(1, 3).Draw(t, label+"NSn")
		var m []string
		for i := 0; len(m) < n && i < 12; i++ {
			s := Numeral(t, o, label+"NS")
			dup := false
			for _, x := range m {
				if model.MustDec(x).Cmp(model.MustDec(s)) == 0 {
					dup = true
				}
			}
			if !dup {
				m = append(m, s)
			}
		}
		return model.NumSet(m...)
	case 7:
		n := rapid.IntRange(1, 3).Draw(t, label+"BSn")
		var m [][]byte
		for i := 0; len(m) < n && i < 12; i++ {
			b := Bytes(false).Draw(t, label+"BS")
			dup := false
			for _, x := range m {
				if string(x) == string(b) {
					dup = true
				}
			}
			if !dup {
				m = append(m, b)
			}
		}
		return model.BinSet(m...)
	case 8:
		lo := 0
		if o.NoEmptyLM {
			lo = 1
		}
		n := rapid.IntRange(lo, 3).Draw(t, label+"Ln")
		sub := o
		sub.Depth--
		out := model.List()
		for i := 0; i < n; i++ {
			out.L = append(out.L, AV(t, sub, label+"L"))
		}
		return out
	default:
		lo := 0
		if o.NoEmptyLM {
			lo = 1
		}
		n := rapid.IntRange(lo, 3).Draw(t, label+"Mn")
		sub := o
		sub.Depth--
		out := model.Map(nil)
		for i := 0; i < n; i++ {
			k := rapid.SampledFrom([]string{"k", "k2", "x", "a", "b", "n", "l", "deep", "a.b"}).Draw(t, label+"MK")
			out.M[k] = AV(t, sub, label+"MV")
		}
		if o.NoEmptyLM && len(out.M) == 0 {
			out.M["k"] = model.Str("v")
		}
		return out
	}
}

// AttrNames is the pool of non-key attribute names. None of them is a
// DynamoDB reserved word.
var AttrNames = []string{"a", "b", "c", "d", "e", "n1", "s1", "l1", "m1", "flag", "cnt", "tags", "nums", "bin1", "extra", "a.b"}

// Attrs draws 0..max non-key attributes.
func Attrs(t *rapid.T, o AVOpts, max int, label string) model.Item {
	return AttrsNamed(t, o, max, AttrNames, label)
}

// AttrsNamed draws 0..max attributes with names from the given pool.
func AttrsNamed(t *rapid.T, o AVOpts, max int, names []string, label string) model.Item {
	n := rapid.IntRange(0, max).Draw(t, label+"N")
	out := model.Item{}
	for i := 0; i < n; i++ {
		k := rapid.SampledFrom(names).Draw(t, label+"K")
		out[k] = AV(t, o, label+"V")
	}
	return out
}

// KeyValue draws a key attribute value of the given scalar type.
func KeyValue(t *rapid.T, typ string, o AVOpts, label string) model.AV {
	switch typ {
	case "N":
		ko := o
		ko.CanonNumerals = true
		ko.FloatExact = true
		return model.Num(Numeral(t, ko, label))
	case "B":
		return model.Bin(Bytes(false).Draw(t, label))
	}
	return model.Str(NonEmptyStr(o.ASCII).Draw(t, label))
}

// HasPrefixPair reports whether some pair of distinct strings in the list has
// one being a prefix of the other (a class counted by several checks).
func HasPrefixPair(ss []string) bool {
	for i, a := range ss {
		for j, b := range ss {
			if i != j && a != b && strings.HasPrefix(b, a) {
				return true
			}
		}
	}
	return false
}

package gen

import (
	"fmt"
	"sort"
	"strings"

	"pgregory.net/rapid"

	"verifharness/model"
)

// ExprCtx carries what an expression generator needs to know about the data
// the expression will be evaluated on, and accumulates the placeholders it
// allocates.
type ExprCtx struct {
	Item      model.Item // representative item (operands are mostly drawn from it)
	Others    []model.Item
	Absent    []string // attribute names known to be absent
	Opts      AVOpts
	IllTyped  int // percent of value operands drawn with a deliberately different type
	NoAlias   bool
	NoNested  bool
	NoSize    bool
	NoPathRHS bool // no attribute-to-attribute comparisons
	Names     map[string]string
	Values    map[string]model.AV
	nName     int
	nValue    int
	nameFmt   string
	valueFmt  string
}

// Style draws the spelling of the placeholder keys of this context: mostly
// #n1 / :v1, sometimes keys that start with a digit (what the SDK expression
// builders emit: #0, :0), with an underscore, or that mix letter case.
func (c *ExprCtx) Style(t *rapid.T) *ExprCtx {
	switch rapid.IntRange(0, 11).Draw(t, "placeholderStyle") {
	case 4:
		c.nameFmt, c.valueFmt = "#%d", ":%d"
	case 6:
		c.nameFmt, c.valueFmt = "#_%d", ":_%d"
	case 8:
		c.nameFmt, c.valueFmt = "#N%dx", ":V%dX_"
	}
	return c
}

// NewExprCtx returns a context over the item.
func NewExprCtx(item model.Item, o AVOpts) *ExprCtx {
	return &ExprCtx{Item: item, Opts: o, IllTyped: 15, Names: map[string]string{}, Values: map[string]model.AV{},
		Absent: []string{"zz", "missing", "nope"}}
}

func isIdent(s string) bool {
	if s == "" {
		return false
	}
	for i := 0; i < len(s); i++ {
		c := s[i]
		if !(c >= 'a' && c <= 'z' || c >= 'A' && c <= 'Z' || c == '_' || (i > 0 && c >= '0' && c <= '9')) {
			return false
		}
	}
	return true
}

// NameTok returns the token for an attribute name: the bare name or an alias.
func (c *ExprCtx) NameTok(t *rapid.T, name string) string {
	must := !isIdent(name) || model.IsReserved(name)
	if !must && (c.NoAlias || rapid.IntRange(0, 9).Draw(t, "alias") >= 3) {
		return name
	}
	for k, v := range c.Names {
		if v == name {
			return k
		}
	}
	c.nName++
	f := c.nameFmt
	if f == "" {
		f = "#n%d"
	}
	k := fmt.Sprintf(f, c.nName)
	c.Names[k] = name
	return k
}

// Val allocates a value placeholder.
func (c *ExprCtx) Val(v model.AV) model.ValueRef {
	c.nValue++
	f := c.valueFmt
	if f == "" {
		f = ":v%d"
	}
	k := fmt.Sprintf(f, c.nValue)
	c.Values[k] = v
	return model.ValueRef{Name: k}
}

// reuseVal now and then hands out a value placeholder that an earlier action of
// the same expression already uses (one :value operand of several actions).
func (c *ExprCtx) reuseVal(t *rapid.T, fits func(model.AV) bool) (model.ValueRef, bool) {
	var ks []string
	for k, v := range c.Values {
		if fits(v) {
			ks = append(ks, k)
		}
	}
	if len(ks) == 0 {
		return model.ValueRef{}, false
	}
	sort.Strings(ks)
	if rapid.IntRange(0, 3).Draw(t, "reuseValue") != 2 {
		return model.ValueRef{}, false
	}
	return model.ValueRef{Name: rapid.SampledFrom(ks).Draw(t, "reusedValue")}, true
}

func sortedNames(it model.Item) []string {
	out := make([]string, 0, len(it))
	for k := range it {
		out = append(out, k)
	}
	sort.Strings(out)
	return out
}

// pathInfo is a generated path together with what it resolves to in Item.
type pathInfo struct {
	P     model.Path
	V     model.AV
	Found bool
}

// DrawPath draws a document path: mostly existing top-level attributes,
// sometimes absent ones, nested members, list elements, elements past the end
// and paths through missing parents.
func (c *ExprCtx) DrawPath(t *rapid.T) pathInfo {
	names := sortedNames(c.Item)
	mode := rapid.IntRange(0, 99).Draw(t, "pathMode")
	if len(names) == 0 || mode < 12 {
		n := rapid.SampledFrom(c.Absent).Draw(t, "absent")
		pi := pathInfo{P: model.Path{Elems: []model.PathElem{{Name: c.NameTok(t, n)}}}}
		if mode < 4 && !c.NoNested {
			// path through a missing parent
			pi.P.Elems = append(pi.P.Elems, model.PathElem{Name: c.NameTok(t, "k")})
		}
		return pi
	}
	n := rapid.SampledFrom(names).Draw(t, "attr")
	v := c.Item[n]
	pi := pathInfo{P: model.Path{Elems: []model.PathElem{{Name: c.NameTok(t, n)}}}, V: v, Found: true}
	if c.NoNested {
		return pi
	}
	for d := 0; d < 4; d++ {
		if !pi.Found {
			break
		}
		switch pi.V.T {
		case "M":
			if rapid.IntRange(0, 9).Draw(t, "descendM") < 6 {
				keys := sortedNames(pi.V.M)
				keys = append(keys, "nokey")
				k := rapid.SampledFrom(keys).Draw(t, "mkey")
				pi.P.Elems = append(pi.P.Elems, model.PathElem{Name: c.NameTok(t, k)})
				nv, ok := pi.V.M[k]
				pi.V, pi.Found = nv, ok
				continue
			}
		case "L":
			if rapid.IntRange(0, 9).Draw(t, "descendL") < 6 {
				i := rapid.IntRange(0, len(pi.V.L)+1).Draw(t, "lidx")
				pi.P.Elems = append(pi.P.Elems, model.PathElem{Index: i, IsIndex: true})
				if i < len(pi.V.L) {
					pi.V = pi.V.L[i]
				} else {
					pi.V, pi.Found = model.AV{}, false
				}
				continue
			}
		}
		break
	}
	return pi
}

// scalarLike draws a value of the given type ("" = any).
func (c *ExprCtx) valueOfType(t *rapid.T, typ string) model.AV {
	o := c.Opts
	switch typ {
	case "S":
		return model.Str(Str(o.ASCII).Draw(t, "vS"))
	case "N":
		return model.Num(Numeral(t, o, "vN"))
	case "B":
		return model.Bin(Bytes(!o.NoEmptyBin).Draw(t, "vB"))
	case "BOOL":
		return model.Bool(rapid.Bool().Draw(t, "vBool"))
	case "NULL":
		return model.Null()
	}
	o.Depth = 2
	for i := 0; i < 30; i++ {
		v := AV(t, o, "vAny")
		if typ == "" || v.T == typ {
			return v
		}
	}
	return AV(t, o, "vAny")
}

// near draws a value related to v: v itself, or another value of the same
// type, or (with probability IllTyped) a value of another type.
func (c *ExprCtx) near(t *rapid.T, pi pathInfo) model.AV {
	r := rapid.IntRange(0, 99).Draw(t, "near")
	if !pi.Found {
		return c.valueOfType(t, rapid.SampledFrom([]string{"S", "N", "BOOL", ""}).Draw(t, "nearT"))
	}
	switch {
	case r < c.IllTyped:
		for i := 0; i < 10; i++ {
			v := c.valueOfType(t, rapid.SampledFrom([]string{"S", "N", "B", "BOOL", "NULL", ""}).Draw(t, "illT"))
			if v.T != pi.V.T {
				return v
			}
		}
		return model.Null()
	case r < c.IllTyped+40:
		return pi.V.Clone()
	case (pi.V.T == "SS" || pi.V.T == "NS" || pi.V.T == "BS") && r < c.IllTyped+65:
		// a set of the same size that shares every member but one
		v := pi.V.Clone()
		switch {
		case v.T == "BS" && len(v.BS) > 0:
			i := rapid.IntRange(0, len(v.BS)-1).Draw(t, "setTwinMember")
			nb := append(append([]byte{}, v.BS[i]...), 0x7e)
			for _, x := range v.BS {
				if string(x) == string(nb) {
					return v
				}
			}
			v.BS[i] = nb
		case v.T == "SS" && len(v.SS) > 0:
			i := rapid.IntRange(0, len(v.SS)-1).Draw(t, "setTwinMember")
			ns := v.SS[i] + "~"
			for _, x := range v.SS {
				if x == ns {
					return v
				}
			}
			v.SS[i] = ns
		case v.T == "NS" && len(v.SS) > 0:
			i := rapid.IntRange(0, len(v.SS)-1).Draw(t, "setTwinMember")
			for _, x := range v.SS {
				if d, ok := model.ParseDec(x); !ok || d.Cmp(model.MustDec("987654")) == 0 {
					return v
				}
			}
			v.SS[i] = "987654"
		}
		return v
	case pi.V.T == "N" && r < c.IllTyped+55:
		// a close neighbour: last significant digit one off
		if d, ok := model.ParseDec(pi.V.S); ok {
			n := d.Add(model.MustDec(rapid.SampledFrom([]string{"1", "-1", "0.001", "10"}).Draw(t, "nearDelta")))
			if n.InRange() && (!c.Opts.FloatExact || model.FloatExact(n.Plain())) {
				return model.Num(n.Plain())
			}
		}
	}
	return c.valueOfType(t, pi.V.T)
}

var cmpOps = []string{"=", "<>", "<", "<=", ">", ">="}

// Atom draws one atomic condition.
func (c *ExprCtx) Atom(t *rapid.T) model.Expr {
	kinds := []string{"cmp", "cmp", "cmp", "between", "in", "exists", "notexists", "type", "begins", "contains", "size", "pathcmp", "cmp2"}
	k := rapid.SampledFrom(kinds).Draw(t, "atom")
	if c.NoSize && k == "size" {
		k = "cmp"
	}
	if c.NoPathRHS && k == "pathcmp" {
		k = "cmp"
	}
	pi := c.DrawPath(t)
	scalar := func(p pathInfo) bool { return !p.Found || p.V.T == "S" || p.V.T == "N" || p.V.T == "B" }
	// most of the time pick operands for which DynamoDB's outcome is certain
	certain := rapid.IntRange(0, 99).Draw(t, "certain") >= c.IllTyped
	retry := func(ok func(pathInfo) bool) {
		for i := 0; i < 6 && certain && !ok(pi); i++ {
			pi = c.DrawPath(t)
		}
	}
	switch k {
	case "between", "size":
		if k == "between" {
			retry(scalar)
		} else {
			retry(func(p pathInfo) bool {
				return p.Found && (p.V.T == "S" || p.V.T == "B" || p.V.T == "L" || p.V.T == "M" || p.V.T == "SS" || p.V.T == "NS" || p.V.T == "BS")
			})
		}
	case "begins":
		retry(func(p pathInfo) bool { return !p.Found || p.V.T == "S" || p.V.T == "B" })
	case "contains":
		retry(func(p pathInfo) bool {
			return !p.Found || p.V.T == "S" || p.V.T == "B" || p.V.T == "L" || p.V.T == "SS" || p.V.T == "NS" || p.V.T == "BS"
		})
	}
	sameTyped := func(p pathInfo) model.AV {
		if p.Found && certain {
			if rapid.IntRange(0, 9).Draw(t, "sameHit") < 4 {
				return p.V.Clone()
			}
			return c.valueOfType(t, p.V.T)
		}
		if !p.Found && certain {
			return c.valueOfType(t, rapid.SampledFrom([]string{"S", "N", "B"}).Draw(t, "missT"))
		}
		return c.near(t, p)
	}
	switch k {
	case "cmp":
		op := rapid.SampledFrom(cmpOps).Draw(t, "op")
		var v model.ValueRef
		if op == "=" || op == "<>" {
			v = c.Val(c.near(t, pi))
		} else {
			retry(scalar)
			v = c.Val(sameTyped(pi))
		}
		if rapid.IntRange(0, 5).Draw(t, "flip") == 0 {
			return model.Cmp{Op: op, L: v, R: pi.P}
		}
		return model.Cmp{Op: op, L: pi.P, R: v}
	case "cmp2":
		// the same attribute compared twice in one expression, with close operands
		op := rapid.SampledFrom([]string{"=", "<>"}).Draw(t, "op")
		l := model.Cmp{Op: op, L: pi.P, R: c.Val(c.near(t, pi))}
		r := model.Cmp{Op: op, L: pi.P, R: c.Val(c.near(t, pi))}
		return model.Paren{X: model.Logic{Op: rapid.SampledFrom([]string{"OR", "AND"}).Draw(t, "cmp2Op"), L: l, R: r}}
	case "pathcmp":
		p2 := c.DrawPath(t)
		return model.Cmp{Op: rapid.SampledFrom(cmpOps).Draw(t, "op"), L: pi.P, R: p2.P}
	case "between":
		a, b := sameTyped(pi), sameTyped(pi)
		if cmp, ok := model.CompareScalar(a, b); ok && cmp > 0 && rapid.IntRange(0, 9).Draw(t, "swap") > 0 {
			a, b = b, a
		}
		bt := model.Between{V: pi.P, Lo: c.Val(a), Hi: c.Val(b)}
		switch rapid.IntRange(0, 9).Draw(t, "betweenBoundIsPath") {
		case 4:
			bt.Lo = c.DrawPath(t).P
		case 6:
			bt.Hi = c.DrawPath(t).P
		}
		return bt
	case "in":
		n := rapid.IntRange(1, 4).Draw(t, "inN")
		var l []model.Expr
		for i := 0; i < n; i++ {
			if rapid.IntRange(0, 4).Draw(t, "inMemberIsPath") == 3 {
				// another attribute (present or missing) as a member of the list
				l = append(l, c.DrawPath(t).P)
				continue
			}
			l = append(l, c.Val(c.near(t, pi)))
		}
		return model.In{V: pi.P, List: l}
	case "exists":
		return model.Func{Name: "attribute_exists", Args: []model.Expr{pi.P}}
	case "notexists":
		return model.Func{Name: "attribute_not_exists", Args: []model.Expr{pi.P}}
	case "type":
		ty := rapid.SampledFrom([]string{"S", "N", "B", "BOOL", "NULL", "L", "M", "SS", "NS", "BS"}).Draw(t, "ty")
		if pi.Found && rapid.Bool().Draw(t, "tyHit") {
			ty = pi.V.T
		}
		return model.Func{Name: "attribute_type", Args: []model.Expr{pi.P, c.Val(model.Str(ty))}}
	case "begins":
		var s model.AV
		switch {
		case pi.Found && pi.V.T == "S" && rapid.IntRange(0, 9).Draw(t, "bwHit") < 7:
			n := rapid.IntRange(0, len(pi.V.S)).Draw(t, "bwLen")
			for n > 0 && n < len(pi.V.S) && pi.V.S[n]&0xC0 == 0x80 {
				n--
			}
			s = model.Str(pi.V.S[:n])
		case pi.Found && pi.V.T == "B" && rapid.IntRange(0, 9).Draw(t, "bwHit") < 7:
			n := rapid.IntRange(0, len(pi.V.B)).Draw(t, "bwLen")
			s = model.Bin(pi.V.B[:n])
			if n == 0 && c.Opts.NoEmptyBin {
				s = model.Bin([]byte{1})
			}
		case pi.Found && certain && (pi.V.T == "S" || pi.V.T == "B"):
			s = c.valueOfType(t, pi.V.T)
		default:
			s = c.valueOfType(t, rapid.SampledFrom([]string{"S", "S", "B"}).Draw(t, "bwT"))
		}
		return model.Func{Name: "begins_with", Args: []model.Expr{pi.P, c.Val(s)}}
	case "contains":
		var o model.AV
		hit := rapid.IntRange(0, 9).Draw(t, "cHit") < 6
		switch {
		case pi.Found && pi.V.T == "S" && hit && len(pi.V.S) > 0:
			o = model.Str(pi.V.S[:1])
			if pi.V.S[0] >= 0x80 {
				o = model.Str(pi.V.S)
			}
		case pi.Found && pi.V.T == "SS" && hit && len(pi.V.SS) > 0:
			o = model.Str(rapid.SampledFrom(pi.V.SS).Draw(t, "cM"))
		case pi.Found && pi.V.T == "NS" && hit && len(pi.V.SS) > 0:
			o = model.Num(rapid.SampledFrom(pi.V.SS).Draw(t, "cM"))
		case pi.Found && pi.V.T == "BS" && hit && len(pi.V.BS) > 0:
			o = model.Bin(rapid.SampledFrom(pi.V.BS).Draw(t, "cM"))
		case pi.Found && pi.V.T == "L" && hit && len(pi.V.L) > 0:
			o = rapid.SampledFrom(pi.V.L).Draw(t, "cM").Clone()
		case pi.Found && certain && (pi.V.T == "S" || pi.V.T == "B"):
			o = c.valueOfType(t, pi.V.T)
		case pi.Found && certain && pi.V.T == "SS":
			o = c.valueOfType(t, "S")
		case pi.Found && certain && pi.V.T == "NS":
			o = c.valueOfType(t, "N")
		case pi.Found && certain && pi.V.T == "BS":
			o = model.Bin(Bytes(false).Draw(t, "cB"))
		default:
			o = c.valueOfType(t, rapid.SampledFrom([]string{"S", "N", "B", ""}).Draw(t, "cT"))
		}
		return model.Func{Name: "contains", Args: []model.Expr{pi.P, c.Val(o)}}
	default: // size
		n := rapid.IntRange(0, 4).Draw(t, "sizeN")
		return model.Cmp{Op: rapid.SampledFrom(cmpOps).Draw(t, "op"), L: model.Func{Name: "size", Args: []model.Expr{pi.P}}, R: c.Val(model.Num(itoa(n)))}
	}
}

// Cond draws a condition expression of at most the given depth.
func (c *ExprCtx) Cond(t *rapid.T, depth int) model.Expr {
	if depth <= 0 || rapid.IntRange(0, 9).Draw(t, "leaf") < 3 {
		return c.Atom(t)
	}
	switch rapid.IntRange(0, 5).Draw(t, "comb") {
	case 0, 1:
		return model.Logic{Op: "AND", L: c.Cond(t, depth-1), R: c.Cond(t, depth-1)}
	case 2, 3:
		return model.Logic{Op: "OR", L: c.Cond(t, depth-1), R: c.Cond(t, depth-1)}
	case 4:
		return model.Not{X: c.Cond(t, depth-1)}
	}
	return model.Paren{X: c.Cond(t, depth-1)}
}

// Decorate re-renders an expression text with random extra whitespace between
// tokens (keywords, names and operators are left intact).
func Decorate(t *rapid.T, s string) string {
	toks := model.TokenTexts(s)
	if toks == nil {
		return s
	}
	var sb strings.Builder
	for i, tok := range toks {
		if i > 0 {
			prev := toks[i-1]
			tight := tok == "." || prev == "." || tok == "[" || prev == "[" || tok == "]" || tok == "(" && i > 0 && isFuncName(prev) || tok == ")" || prev == "(" || tok == ","
			if !tight || rapid.IntRange(0, 9).Draw(t, "ws") == 0 && tok != "." && prev != "." && tok != "[" && prev != "[" && tok != "]" {
				sb.WriteString(rapid.SampledFrom([]string{" ", " ", " ", "  ", "\t", "\n"}).Draw(t, "wsKind"))
			}
		}
		sb.WriteString(tok)
	}
	return sb.String()
}

func isFuncName(s string) bool {
	switch s {
	case "attribute_exists", "attribute_not_exists", "attribute_type", "begins_with", "contains", "size", "if_not_exists", "list_append":
		return true
	}
	return false
}

// ---------------------------------------------------------------- updates

// UpdateCfg tunes the update generator.
type UpdateCfg struct {
	MaxActions   int
	KeyAttrs     []string // never targeted (unless TargetKeys)
	TargetKeys   bool
	ExtraTargets []string // attribute names that should be targeted often (index keys)
	ExtraValues  map[string][]model.AV
	IllTyped     int // percent of actions built to fail
	// ListSiblings: in a twelfth of the cases the expression also removes one
	// element of a list and sets a later element of the same list (positions of
	// one expression all refer to the list as it was before the update)
	ListSiblings bool
}

// Update draws an update expression over c.Item (nil item = absent).
func (c *ExprCtx) Update(t *rapid.T, cfg UpdateCfg) model.Update {
	if cfg.MaxActions == 0 {
		cfg.MaxActions = 3
	}
	n := rapid.IntRange(1, cfg.MaxActions).Draw(t, "nActions")
	by := map[string][]model.Action{}
	var targets []model.Path
	overlaps := func(p model.Path) bool {
		for _, q := range targets {
			if pathsOverlap(c, p, q) {
				return true
			}
		}
		return false
	}
	isKey := func(name string) bool {
		for _, k := range cfg.KeyAttrs {
			if k == name {
				return true
			}
		}
		return false
	}
	for i := 0; i < n; i++ {
		kind := rapid.SampledFrom([]string{"SET", "SET", "SET", "REMOVE", "ADD", "DELETE"}).Draw(t, "clause")
		var target pathInfo
		ok := false
		for try := 0; try < 6 && !ok; try++ {
			target = c.drawTarget(t, kind, cfg)
			root := c.resolveName(target.P.Elems[0].Name)
			if isKey(root) && !cfg.TargetKeys {
				continue
			}
			if overlaps(target.P) {
				continue
			}
			ok = true
		}
		if !ok {
			continue
		}
		bad := rapid.IntRange(0, 99).Draw(t, "badAction") < cfg.IllTyped
		var act model.Action
		switch kind {
		case "SET":
			act = model.Action{Path: target.P, Value: c.setValue(t, target, cfg, bad)}
		case "REMOVE":
			act = model.Action{Path: target.P}
		case "ADD":
			if ref, ok := c.reuseVal(t, func(v model.AV) bool {
				return (v.T == "N" || v.T == "SS" || v.T == "NS" || v.T == "BS") && (!target.Found || v.T == target.V.T)
			}); ok && !bad {
				act = model.Action{Path: target.P, Value: ref}
				break
			}
			act = model.Action{Path: target.P, Value: c.Val(c.addOperand(t, target, bad))}
		case "DELETE":
			if ref, ok := c.reuseVal(t, func(v model.AV) bool {
				return (v.T == "SS" || v.T == "NS" || v.T == "BS") && (!target.Found || v.T == target.V.T)
			}); ok && !bad {
				act = model.Action{Path: target.P, Value: ref}
				break
			}
			act = model.Action{Path: target.P, Value: c.Val(c.deleteOperand(t, target, bad))}
		}
		targets = append(targets, target.P)
		by[kind] = append(by[kind], act)
	}
	if cfg.ListSiblings && rapid.IntRange(0, 11).Draw(t, "listSiblings") == 5 {
		var lists []string
		for _, nm := range sortedNames(c.Item) {
			if v := c.Item[nm]; v.T == "L" && len(v.L) >= 3 && !isKey(nm) {
				lists = append(lists, nm)
			}
		}
		if len(lists) > 0 {
			nm := rapid.SampledFrom(lists).Draw(t, "siblingList")
			l := len(c.Item[nm].L)
			i := rapid.IntRange(0, l-2).Draw(t, "removedPos")
			j := rapid.IntRange(i+1, l-1).Draw(t, "setPos")
			tok := c.NameTok(t, nm)
			pr := model.Path{Elems: []model.PathElem{{Name: tok}, {Index: i, IsIndex: true}}}
			ps := model.Path{Elems: []model.PathElem{{Name: tok}, {Index: j, IsIndex: true}}}
			if !overlaps(pr) && !overlaps(ps) {
				targets = append(targets, pr, ps)
				by["REMOVE"] = append(by["REMOVE"], model.Action{Path: pr})
				by["SET"] = append(by["SET"], model.Action{Path: ps, Value: c.Val(model.Str("sibling"))})
			}
		}
	}
	var u model.Update
	order := []string{"SET", "REMOVE", "ADD", "DELETE"}
	// random clause order
	perm := rapid.Permutation(order).Draw(t, "clauseOrder")
	for _, k := range perm {
		if len(by[k]) > 0 {
			u.Clauses = append(u.Clauses, model.Clause{Kind: k, Actions: by[k]})
		}
	}
	if len(u.Clauses) == 0 {
		u.Clauses = []model.Clause{{Kind: "SET", Actions: []model.Action{{Path: model.Path{Elems: []model.PathElem{{Name: c.NameTok(t, "extra")}}}, Value: c.Val(model.Str("x"))}}}}
	}
	return u
}

func (c *ExprCtx) resolveName(tok string) string {
	if strings.HasPrefix(tok, "#") {
		return c.Names[tok]
	}
	return tok
}

func pathsOverlap(c *ExprCtx, a, b model.Path) bool {
	n := len(a.Elems)
	if len(b.Elems) < n {
		n = len(b.Elems)
	}
	for i := 0; i < n; i++ {
		x, y := a.Elems[i], b.Elems[i]
		if x.IsIndex != y.IsIndex {
			return false
		}
		if x.IsIndex {
			if x.Index != y.Index {
				return false
			}
			continue
		}
		if c.resolveName(x.Name) != c.resolveName(y.Name) {
			return false
		}
	}
	return true
}

func (c *ExprCtx) drawTarget(t *rapid.T, kind string, cfg UpdateCfg) pathInfo {
	if len(cfg.ExtraTargets) > 0 && rapid.IntRange(0, 9).Draw(t, "extraT") < 4 {
		n := rapid.SampledFrom(cfg.ExtraTargets).Draw(t, "extraName")
		v, ok := c.Item[n]
		return pathInfo{P: model.Path{Elems: []model.PathElem{{Name: c.NameTok(t, n)}}}, V: v, Found: ok}
	}
	if rapid.IntRange(0, 9).Draw(t, "newAttr") < 3 {
		n := rapid.SampledFrom(AttrNames).Draw(t, "newName")
		v, ok := c.Item[n]
		return pathInfo{P: model.Path{Elems: []model.PathElem{{Name: c.NameTok(t, n)}}}, V: v, Found: ok}
	}
	// prefer targets of a fitting type for ADD / DELETE
	if kind == "ADD" || kind == "DELETE" {
		var fit []string
		for _, n := range sortedNames(c.Item) {
			ty := c.Item[n].T
			if ty == "SS" || ty == "NS" || ty == "BS" || (kind == "ADD" && ty == "N") {
				fit = append(fit, n)
			}
		}
		if len(fit) > 0 && rapid.IntRange(0, 9).Draw(t, "fit") < 7 {
			n := rapid.SampledFrom(fit).Draw(t, "fitName")
			return pathInfo{P: model.Path{Elems: []model.PathElem{{Name: c.NameTok(t, n)}}}, V: c.Item[n], Found: true}
		}
	}
	return c.DrawPath(t)
}

func (c *ExprCtx) setValue(t *rapid.T, target pathInfo, cfg UpdateCfg, bad bool) model.Expr {
	root := c.resolveName(target.P.Elems[0].Name)
	if vals, ok := cfg.ExtraValues[root]; ok && len(target.P.Elems) == 1 && !bad {
		return c.Val(rapid.SampledFrom(vals).Draw(t, "extraV").Clone())
	}
	mode := rapid.IntRange(0, 9).Draw(t, "setMode")
	if bad {
		switch rapid.IntRange(0, 3).Draw(t, "badMode") {
		case 0: // arithmetic on a string
			return model.Arith{Op: "+", L: c.Val(model.Str("x")), R: c.Val(model.Num("1"))}
		case 1: // list_append on non-list
			return model.Func{Name: "list_append", Args: []model.Expr{c.Val(model.Str("x")), c.Val(model.List())}}
		case 2: // arithmetic with a missing attribute
			return model.Arith{Op: "-", L: model.Path{Elems: []model.PathElem{{Name: c.NameTok(t, "missing")}}}, R: c.Val(model.Num("1"))}
		default:
			return model.Arith{Op: "+", L: c.Val(model.Bool(true)), R: c.Val(model.Num("2"))}
		}
	}
	o := c.Opts
	if o.Depth < 2 {
		o.Depth = 2
	}
	switch {
	case mode < 4:
		if ref, ok := c.reuseVal(t, func(model.AV) bool { return true }); ok {
			return ref
		}
		return c.Val(AV(t, o, "setV"))
	case mode < 5:
		// copy from another attribute
		src := c.DrawPath(t)
		return src.P
	case mode < 7:
		// arithmetic
		var l model.Expr
		src := c.numericPath(t)
		if src != nil && rapid.Bool().Draw(t, "arithPath") {
			l = *src
		} else {
			l = c.Val(model.Num(c.smallNum(t)))
		}
		r := model.Expr(c.Val(model.Num(c.smallNum(t))))
		if rapid.IntRange(0, 4).Draw(t, "arithFlip") == 0 {
			l, r = r, l
		}
		return model.Arith{Op: rapid.SampledFrom([]string{"+", "-"}).Draw(t, "arithOp"), L: l, R: r}
	case mode < 8:
		p := c.DrawPath(t)
		return model.Func{Name: "if_not_exists", Args: []model.Expr{p.P, c.Val(AV(t, o, "ineV"))}}
	default:
		var a model.Expr
		if lp := c.listPath(t); lp != nil && rapid.IntRange(0, 9).Draw(t, "laPath") < 7 {
			a = *lp
		} else {
			a = c.Val(model.List(AV(t, AVOpts{Depth: 1, FloatExact: o.FloatExact, NoEmptyBin: o.NoEmptyBin, CanonNumerals: o.CanonNumerals, ASCII: o.ASCII}, "laE")))
		}
		b := model.Expr(c.Val(model.List(AV(t, AVOpts{Depth: 1, FloatExact: o.FloatExact, NoEmptyBin: o.NoEmptyBin, CanonNumerals: o.CanonNumerals, ASCII: o.ASCII}, "laE2"))))
		if rapid.Bool().Draw(t, "laFlip") {
			a, b = b, a
		}
		return model.Func{Name: "list_append", Args: []model.Expr{a, b}}
	}
}

// smallNum draws numerals whose sums and differences are exact in float64.
func (c *ExprCtx) smallNum(t *rapid.T) string {
	if !c.Opts.FloatExact {
		return Numeral(t, c.Opts, "arithN")
	}
	return rapid.SampledFrom([]string{"0", "1", "2", "3", "5", "10", "100", "0.5", "0.25", "1.5", "-1", "-2.5", "7", "1000000", "2.0", "1e2"}).Filter(func(s string) bool {
		return !c.Opts.CanonNumerals || model.MustDec(s).Plain() == s
	}).Draw(t, "smallN")
}

func (c *ExprCtx) numericPath(t *rapid.T) *model.Path {
	var fit []string
	for _, n := range sortedNames(c.Item) {
		if c.Item[n].T == "N" {
			fit = append(fit, n)
		}
	}
	if len(fit) == 0 {
		return nil
	}
	n := rapid.SampledFrom(fit).Draw(t, "numAttr")
	p := model.Path{Elems: []model.PathElem{{Name: c.NameTok(t, n)}}}
	return &p
}

func (c *ExprCtx) listPath(t *rapid.T) *model.Path {
	var fit []string
	for _, n := range sortedNames(c.Item) {
		if c.Item[n].T == "L" {
			fit = append(fit, n)
		}
	}
	if len(fit) == 0 {
		return nil
	}
	n := rapid.SampledFrom(fit).Draw(t, "listAttr")
	p := model.Path{Elems: []model.PathElem{{Name: c.NameTok(t, n)}}}
	return &p
}

func (c *ExprCtx) addOperand(t *rapid.T, target pathInfo, bad bool) model.AV {
	if bad {
		return rapid.SampledFrom([]model.AV{model.Str("x"), model.Bool(true), model.List(model.Num("1"))}).Draw(t, "badAdd")
	}
	if target.Found {
		switch target.V.T {
		case "N":
			return model.Num(c.smallNum(t))
		case "SS":
			return model.StrSet(distinctStrings(t, Str(c.Opts.ASCII), rapid.IntRange(1, 2).Draw(t, "addN"), "addSS", func(a, b string) bool { return a == b })...)
		case "NS":
			// (one to three members: the operand may be larger than the stored set)
			ms := []string{c.smallNum(t)}
			for i, n := 0, rapid.IntRange(0, 2).Draw(t, "addNSExtra"); i < n; i++ {
				m := c.smallNum(t)
				dup := false
				for _, x := range ms {
					if model.MustDec(x).Cmp(model.MustDec(m)) == 0 {
						dup = true
					}
				}
				if !dup {
					ms = append(ms, m)
				}
			}
			return model.NumSet(ms...)
		case "BS":
			bs := [][]byte{Bytes(false).Draw(t, "addBS")}
			if b2 := Bytes(false).Draw(t, "addBS2"); string(b2) != string(bs[0]) && rapid.Bool().Draw(t, "addBSTwo") {
				bs = append(bs, b2)
			}
			return model.BinSet(bs...)
		}
	}
	switch rapid.IntRange(0, 3).Draw(t, "addKind") {
	case 0:
		return model.StrSet(Str(c.Opts.ASCII).Draw(t, "addSS"))
	case 1:
		return model.NumSet(c.smallNum(t))
	}
	return model.Num(c.smallNum(t))
}

func (c *ExprCtx) deleteOperand(t *rapid.T, target pathInfo, bad bool) model.AV {
	if bad {
		return rapid.SampledFrom([]model.AV{model.Str("x"), model.Num("1")}).Draw(t, "badDel")
	}
	if target.Found {
		switch target.V.T {
		case "SS":
			m := append([]string{}, target.V.SS...)
			k := rapid.IntRange(1, len(m)).Draw(t, "delK")
			if rapid.IntRange(0, 3).Draw(t, "delMiss") == 0 {
				return model.StrSet("not-a-member")
			}
			return model.StrSet(m[:k]...)
		case "NS":
			m := append([]string{}, target.V.SS...)
			k := rapid.IntRange(1, len(m)).Draw(t, "delK")
			return model.NumSet(m[:k]...)
		case "BS":
			k := rapid.IntRange(1, len(target.V.BS)).Draw(t, "delK")
			return model.BinSet(target.V.BS[:k]...)
		}
	}
	return model.StrSet(Str(c.Opts.ASCII).Draw(t, "delSS"))
}

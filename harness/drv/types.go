package drv

import (
	mtypes "github.com/truora/minidyn/types"

	"verifharness/model"
)

// ToTypes converts a model value into minidyn's internal item type (used to
// call the interpreter directly).
func ToTypes(a model.AV) *mtypes.Item {
	switch a.T {
	case "S":
		s := a.S
		return &mtypes.Item{S: &s}
	case "N":
		s := a.S
		return &mtypes.Item{N: &s}
	case "B":
		return &mtypes.Item{B: append([]byte{}, a.B...)}
	case "BOOL":
		b := a.Bool
		return &mtypes.Item{BOOL: &b}
	case "NULL":
		b := true
		return &mtypes.Item{NULL: &b}
	case "L":
		l := make([]*mtypes.Item, len(a.L))
		for i, e := range a.L {
			l[i] = ToTypes(e)
		}
		return &mtypes.Item{L: l}
	case "M":
		return &mtypes.Item{M: ToTypesItem(a.M)}
	case "SS":
		out := make([]*string, len(a.SS))
		for i := range a.SS {
			s := a.SS[i]
			out[i] = &s
		}
		return &mtypes.Item{SS: out}
	case "NS":
		out := make([]*string, len(a.SS))
		for i := range a.SS {
			s := a.SS[i]
			out[i] = &s
		}
		return &mtypes.Item{NS: out}
	case "BS":
		out := make([][]byte, len(a.BS))
		for i := range a.BS {
			out[i] = append([]byte{}, a.BS[i]...)
		}
		return &mtypes.Item{BS: out}
	}
	panic("ToTypes: bad type " + a.T)
}

// ToTypesItem converts an item (never nil).
func ToTypesItem(it model.Item) map[string]*mtypes.Item {
	out := make(map[string]*mtypes.Item, len(it))
	for k, v := range it {
		out[k] = ToTypes(v)
	}
	return out
}

// FromTypes converts minidyn's internal item type back.
func FromTypes(v *mtypes.Item) model.AV {
	if v == nil {
		return model.AV{T: "?nil"}
	}
	var found []model.AV
	if v.S != nil {
		found = append(found, model.Str(*v.S))
	}
	if v.N != nil {
		found = append(found, model.Num(*v.N))
	}
	if v.B != nil {
		found = append(found, model.AV{T: "B", B: append([]byte{}, v.B...)})
	}
	if v.BOOL != nil {
		found = append(found, model.Bool(*v.BOOL))
	}
	if v.NULL != nil {
		found = append(found, model.Null())
	}
	if v.L != nil {
		out := model.AV{T: "L"}
		for _, e := range v.L {
			out.L = append(out.L, FromTypes(e))
		}
		found = append(found, out)
	}
	if v.M != nil {
		found = append(found, model.AV{T: "M", M: FromTypesItem(v.M)})
	}
	if v.SS != nil {
		out := model.AV{T: "SS"}
		for _, s := range v.SS {
			out.SS = append(out.SS, *s)
		}
		found = append(found, out)
	}
	if v.NS != nil {
		out := model.AV{T: "NS"}
		for _, s := range v.NS {
			out.SS = append(out.SS, *s)
		}
		found = append(found, out)
	}
	if v.BS != nil {
		out := model.AV{T: "BS"}
		for _, e := range v.BS {
			out.BS = append(out.BS, append([]byte{}, e...))
		}
		found = append(found, out)
	}
	if len(found) == 1 {
		return found[0]
	}
	if len(found) == 0 {
		return model.AV{T: "?empty"}
	}
	return model.AV{T: "?multi"}
}

// FromTypesItem converts an item.
func FromTypesItem(it map[string]*mtypes.Item) model.Item {
	out := model.Item{}
	for k, v := range it {
		out[k] = FromTypes(v)
	}
	return out
}

func boolPtrOrNil(b bool) *bool {
	if !b {
		return nil
	}
	return &b
}

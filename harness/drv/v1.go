package drv

import (
	"errors"
	"fmt"
	"github.com/truora/minidyn/interpreter"
	"sort"
	"strings"
	"sync"

	"github.com/aws/aws-sdk-go/aws"
	"github.com/aws/aws-sdk-go/aws/awserr"
	"github.com/aws/aws-sdk-go/aws/request"
	"github.com/aws/aws-sdk-go/service/dynamodb"
	v1client "github.com/truora/minidyn/aws-v1/client"

	"verifharness/model"
)

// ToV1 converts a model value to the SDK v1 representation.
func ToV1(a model.AV) *dynamodb.AttributeValue {
	switch a.T {
	case "S":
		return &dynamodb.AttributeValue{S: aws.String(a.S)}
	case "N":
		return &dynamodb.AttributeValue{N: aws.String(a.S)}
	case "B":
		return &dynamodb.AttributeValue{B: append([]byte{}, a.B...)}
	case "BOOL":
		return &dynamodb.AttributeValue{BOOL: aws.Bool(a.Bool)}
	case "NULL":
		return &dynamodb.AttributeValue{NULL: aws.Bool(true)}
	case "L":
		l := make([]*dynamodb.AttributeValue, len(a.L))
		for i, e := range a.L {
			l[i] = ToV1(e)
		}
		return &dynamodb.AttributeValue{L: l}
	case "M":
		m := ToV1Item(a.M)
		if m == nil {
			m = map[string]*dynamodb.AttributeValue{}
		}
		return &dynamodb.AttributeValue{M: m}
	case "SS":
		return &dynamodb.AttributeValue{SS: freshStrings(a.SS)}
	case "NS":
		return &dynamodb.AttributeValue{NS: freshStrings(a.SS)}
	case "BS":
		b := make([][]byte, len(a.BS))
		for i, e := range a.BS {
			b[i] = append([]byte{}, e...)
		}
		return &dynamodb.AttributeValue{BS: b}
	}
	panic("ToV1: bad type " + a.T)
}

// freshStrings returns pointers to fresh copies (aws.StringSlice would point
// into the model's own slice).
func freshStrings(ss []string) []*string {
	out := make([]*string, len(ss))
	for i := range ss {
		s := ss[i]
		out[i] = &s
	}
	return out
}

// ToV1Item converts an item; nil gives nil.
func ToV1Item(it model.Item) map[string]*dynamodb.AttributeValue {
	if it == nil {
		return nil
	}
	out := make(map[string]*dynamodb.AttributeValue, len(it))
	for k, v := range it {
		out[k] = ToV1(v)
	}
	return out
}

// FromV1 converts an SDK v1 value to the model representation. A value with
// no field or several fields set is reported with a "?" type so that any
// comparison with a well-formed value fails.
func FromV1(v *dynamodb.AttributeValue) model.AV {
	if v == nil {
		return model.AV{T: "?nil"}
	}
	var found []model.AV
	if v.S != nil {
		found = append(found, model.Str(*v.S))
	}
	if v.N != nil {
		found = append(found, model.Num(*v.N))
	}
	if v.B != nil {
		found = append(found, model.AV{T: "B", B: append([]byte{}, v.B...)})
	}
	if v.BOOL != nil {
		found = append(found, model.Bool(*v.BOOL))
	}
	if v.NULL != nil {
		found = append(found, model.Null())
	}
	if v.L != nil {
		out := model.AV{T: "L"}
		for _, e := range v.L {
			out.L = append(out.L, FromV1(e))
		}
		found = append(found, out)
	}
	if v.M != nil {
		found = append(found, model.AV{T: "M", M: FromV1Item(v.M)})
	}
	if v.SS != nil {
		found = append(found, model.AV{T: "SS", SS: aws.StringValueSlice(v.SS)})
	}
	if v.NS != nil {
		found = append(found, model.AV{T: "NS", SS: aws.StringValueSlice(v.NS)})
	}
	if v.BS != nil {
		out := model.AV{T: "BS"}
		for _, e := range v.BS {
			out.BS = append(out.BS, append([]byte{}, e...))
		}
		found = append(found, out)
	}
	if len(found) == 1 {
		return found[0]
	}
	if len(found) == 0 {
		return model.AV{T: "?empty"}
	}
	ts := make([]string, len(found))
	for i, f := range found {
		ts[i] = f.T
	}
	return model.AV{T: "?multi:" + strings.Join(ts, "+")}
}

// FromV1Item converts an item (nil and empty both give an empty item).
func FromV1Item(it map[string]*dynamodb.AttributeValue) model.Item {
	out := model.Item{}
	for k, v := range it {
		out[k] = FromV1(v)
	}
	return out
}

func fromV1Items(items []map[string]*dynamodb.AttributeValue) []model.Item {
	out := make([]model.Item, 0, len(items))
	for _, it := range items {
		out = append(out, FromV1Item(it))
	}
	return out
}

// ClassifyV1 maps an error returned by the v1 client to an error class.
func ClassifyV1(err error) string {
	if err == nil {
		return model.ErrNone
	}
	if errors.Is(err, v1client.ErrForcedFailure) {
		return model.ErrForced
	}
	var pe request.ErrInvalidParams
	if errors.As(err, &pe) {
		return model.ErrSDKParam
	}
	var ae awserr.Error
	if errors.As(err, &ae) {
		if ae.Code() == request.InvalidParameterErrCode || ae.Code() == request.ParamRequiredErrCode || ae.Code() == request.ParamMinLenErrCode || ae.Code() == request.ParamMinValueErrCode {
			return model.ErrSDKParam
		}
		return classCode(ae.Code())
	}
	if c, ok := classifyCommon(err); ok {
		return c
	}
	if errors.Is(err, v1client.ErrResourceNotFoundException) {
		return model.ErrNotFound
	}
	return "Other:" + err.Error()
}

// V1 drives the aws-sdk-go (v1) client.
type V1 struct {
	C *v1client.Client
	// shared: request objects handed to the client by several calls (Op.Shared)
	shared sync.Map
}

// NewV1 returns a driver with a fresh client.
func NewV1() *V1 { return &V1{C: v1client.NewClient()} }

func (d *V1) Name() string { return "v1" }

func (d *V1) Snapshot() string {
	var sb strings.Builder
	for _, n := range d.C.VerifTableNames() {
		sb.WriteString(d.C.VerifTable(n).VerifSnapshot())
	}
	fmt.Fprintf(&sb, "failure=%t\n", d.C.VerifFailureActive())
	return sb.String()
}

func v1Names(m map[string]string) map[string]*string {
	if m == nil {
		return nil
	}
	out := make(map[string]*string, len(m))
	for k, v := range m {
		out[k] = aws.String(v)
	}
	return out
}

func v1KeySchema(hash, rng string) []*dynamodb.KeySchemaElement {
	var ks []*dynamodb.KeySchemaElement
	if hash != "" {
		ks = append(ks, &dynamodb.KeySchemaElement{AttributeName: aws.String(hash), KeyType: aws.String("HASH")})
	}
	if rng != "" {
		ks = append(ks, &dynamodb.KeySchemaElement{AttributeName: aws.String(rng), KeyType: aws.String("RANGE")})
	}
	return ks
}

func v1AttrDefs(attrs map[string]string) []*dynamodb.AttributeDefinition {
	names := make([]string, 0, len(attrs))
	for k := range attrs {
		names = append(names, k)
	}
	sort.Strings(names)
	var out []*dynamodb.AttributeDefinition
	for _, n := range names {
		out = append(out, &dynamodb.AttributeDefinition{AttributeName: aws.String(n), AttributeType: aws.String(attrs[n])})
	}
	return out
}

func v1Throughput() *dynamodb.ProvisionedThroughput {
	return &dynamodb.ProvisionedThroughput{ReadCapacityUnits: aws.Int64(5), WriteCapacityUnits: aws.Int64(5)}
}

func v1Desc(td *dynamodb.TableDescription) *model.Desc {
	if td == nil {
		return nil
	}
	d := &model.Desc{Table: aws.StringValue(td.TableName), Count: int(aws.Int64Value(td.ItemCount))}
	ks := func(l []*dynamodb.KeySchemaElement) (h, r string) {
		for _, k := range l {
			if aws.StringValue(k.KeyType) == "HASH" {
				h = aws.StringValue(k.AttributeName)
			} else {
				r = aws.StringValue(k.AttributeName)
			}
		}
		return
	}
	d.Hash, d.Range = ks(td.KeySchema)
	for _, g := range td.GlobalSecondaryIndexes {
		id := model.IndexDesc{Name: aws.StringValue(g.IndexName), Global: true, HasCount: g.ItemCount != nil, Count: int(aws.Int64Value(g.ItemCount))}
		id.Hash, id.Range = ks(g.KeySchema)
		d.Indexes = append(d.Indexes, id)
	}
	for _, l := range td.LocalSecondaryIndexes {
		id := model.IndexDesc{Name: aws.StringValue(l.IndexName), Global: false, HasCount: l.ItemCount != nil, Count: int(aws.Int64Value(l.ItemCount))}
		id.Hash, id.Range = ks(l.KeySchema)
		d.Indexes = append(d.Indexes, id)
	}
	sort.SliceStable(d.Indexes, func(i, j int) bool { return d.Indexes[i].Name < d.Indexes[j].Name })
	return d
}

// Apply executes the operation on the real client inside recover().
func (d *V1) Apply(op model.Op) (res model.Result) {
	defer func() {
		if r := recover(); r != nil {
			cls, text := ClassifyPanic(r)
			res = model.Result{Err: cls, ErrText: text}
		}
	}()
	c := d.C
	fail := func(err error) model.Result {
		return model.Result{Err: ClassifyV1(err), ErrText: err.Error()}
	}
	switch op.Kind {
	case "CreateTable":
		s := op.Schema
		if s.ViaAddTable {
			if err := v1client.AddTable(c, s.Table, s.Hash, s.Range); err != nil {
				return fail(err)
			}
			return model.Result{}
		}
		in := &dynamodb.CreateTableInput{
			TableName:            aws.String(s.Table),
			AttributeDefinitions: v1AttrDefs(s.Attrs),
			KeySchema:            v1KeySchema(s.Hash, s.Range),
		}
		if s.Billing == "PAY_PER_REQUEST" {
			in.BillingMode = aws.String("PAY_PER_REQUEST")
		} else {
			in.BillingMode = aws.String("PROVISIONED")
		}
		if !s.NoThroughput {
			in.ProvisionedThroughput = v1Throughput()
		}
		for _, ix := range s.Indexes {
			if ix.Global {
				g := &dynamodb.GlobalSecondaryIndex{IndexName: aws.String(ix.Name), KeySchema: v1KeySchema(ix.Hash, ix.Range),
					Projection: &dynamodb.Projection{ProjectionType: aws.String("ALL")}}
				if !ix.NoThroughput {
					g.ProvisionedThroughput = v1Throughput()
				}
				in.GlobalSecondaryIndexes = append(in.GlobalSecondaryIndexes, g)
			} else {
				in.LocalSecondaryIndexes = append(in.LocalSecondaryIndexes, &dynamodb.LocalSecondaryIndex{IndexName: aws.String(ix.Name),
					KeySchema: v1KeySchema(ix.Hash, ix.Range), Projection: &dynamodb.Projection{ProjectionType: aws.String("ALL")}})
			}
		}
		if s.EmptyGSIList && in.GlobalSecondaryIndexes == nil {
			in.GlobalSecondaryIndexes = []*dynamodb.GlobalSecondaryIndex{}
		}
		if s.EmptyLSIList && in.LocalSecondaryIndexes == nil {
			in.LocalSecondaryIndexes = []*dynamodb.LocalSecondaryIndex{}
		}
		out, err := c.CreateTable(in)
		if err != nil {
			return fail(err)
		}
		return model.Result{Desc: v1Desc(out.TableDescription)}
	case "DeleteTable":
		out, err := c.DeleteTable(&dynamodb.DeleteTableInput{TableName: aws.String(op.Table)})
		if err != nil {
			return fail(err)
		}
		return model.Result{Desc: v1Desc(out.TableDescription)}
	case "DescribeTable":
		out, err := c.DescribeTable(&dynamodb.DescribeTableInput{TableName: aws.String(op.Table)})
		if err != nil {
			return fail(err)
		}
		return model.Result{Desc: v1Desc(out.Table)}
	case "AddIndex":
		ix := op.IndexSchema
		if ix.ViaHelper {
			if err := v1client.AddIndex(c, op.Table, ix.Name, ix.Hash, ix.Range); err != nil {
				return fail(err)
			}
			return model.Result{}
		}
		act := &dynamodb.CreateGlobalSecondaryIndexAction{IndexName: aws.String(ix.Name), KeySchema: v1KeySchema(ix.Hash, ix.Range),
			Projection: &dynamodb.Projection{ProjectionType: aws.String("ALL")}}
		if !ix.NoThroughput {
			act.ProvisionedThroughput = v1Throughput()
		}
		out, err := c.UpdateTable(&dynamodb.UpdateTableInput{TableName: aws.String(op.Table),
			AttributeDefinitions:        v1AttrDefs(op.IndexAttrs),
			GlobalSecondaryIndexUpdates: []*dynamodb.GlobalSecondaryIndexUpdate{{Create: act}}})
		if err != nil {
			r := fail(err)
			if out != nil {
				r.Desc = v1Desc(out.TableDescription)
			}
			return r
		}
		return model.Result{Desc: v1Desc(out.TableDescription)}
	case "DeclareAttrs": // UpdateTable that carries attribute definitions and no index action
		out, err := c.UpdateTable(&dynamodb.UpdateTableInput{TableName: aws.String(op.Table), AttributeDefinitions: v1AttrDefs(op.IndexAttrs)})
		if err != nil {
			return fail(err)
		}
		return model.Result{Desc: v1Desc(out.TableDescription)}
	case "DeleteIndex":
		out, err := c.UpdateTable(&dynamodb.UpdateTableInput{TableName: aws.String(op.Table),
			GlobalSecondaryIndexUpdates: []*dynamodb.GlobalSecondaryIndexUpdate{{Delete: &dynamodb.DeleteGlobalSecondaryIndexAction{IndexName: aws.String(op.Index)}}}})
		if err != nil {
			return fail(err)
		}
		return model.Result{Desc: v1Desc(out.TableDescription)}
	case "SetMetrics":
		v1client.SetItemCollectionMetrics(c, map[string][]*dynamodb.ItemCollectionMetrics{
			"tbl":  {{ItemCollectionKey: map[string]*dynamodb.AttributeValue{"pk": {S: aws.String("a")}}}},
			"tbl2": {{ItemCollectionKey: map[string]*dynamodb.AttributeValue{"pk": {S: aws.String("b")}}}},
		})
		return model.Result{}
	case "NativeGet":
		_ = c.GetNativeInterpreter()
		return model.Result{}
	case "NativeSet":
		c.SetInterpreter(interpreter.NewNativeInterpreter())
		return model.Result{}
	case "NativeActivate":
		c.ActivateNativeInterpreter()
		return model.Result{}
	case "ClearTable":
		if err := v1client.ClearTable(c, op.Table); err != nil {
			return fail(err)
		}
		return model.Result{}
	case "SetFailure":
		switch op.Via {
		case "active":
			v1client.ActiveForceFailure(c)
		case "deactive":
			v1client.DeactiveForceFailure(c)
		default:
			v1client.EmulateFailure(c, v1client.FailureCondition(op.Failure))
		}
		return model.Result{}
	case "TransactWrite":
		_, err := c.TransactWriteItems(&dynamodb.TransactWriteItemsInput{})
		if err != nil {
			return fail(err)
		}
		return model.Result{}
	case "Put":
		in := &dynamodb.PutItemInput{TableName: aws.String(op.Table), Item: ToV1Item(op.Item),
			ConditionExpression: strPtrOrNil(op.Cond), ExpressionAttributeNames: v1Names(op.Names), ExpressionAttributeValues: ToV1Item(op.Values)}
		if op.ReturnValues != "" {
			in.ReturnValues = aws.String(op.ReturnValues)
		}
		_, err := c.PutItem(in)
		if err != nil {
			return fail(err)
		}
		return model.Result{}
	case "Update":
		in := &dynamodb.UpdateItemInput{TableName: aws.String(op.Table), Key: ToV1Item(op.Key), UpdateExpression: aws.String(op.Update),
			ConditionExpression: strPtrOrNil(op.Cond), ExpressionAttributeNames: v1Names(op.Names), ExpressionAttributeValues: ToV1Item(op.Values)}
		if op.ReturnValues != "" {
			in.ReturnValues = aws.String(op.ReturnValues)
		}
		out, err := c.UpdateItem(in)
		if err != nil {
			return fail(err)
		}
		return model.Result{Item: FromV1Item(out.Attributes)}
	case "Delete":
		in := &dynamodb.DeleteItemInput{TableName: aws.String(op.Table), Key: ToV1Item(op.Key),
			ConditionExpression: strPtrOrNil(op.Cond), ExpressionAttributeNames: v1Names(op.Names), ExpressionAttributeValues: ToV1Item(op.Values)}
		if op.ReturnOld {
			in.ReturnValues = aws.String("ALL_OLD")
		}
		if op.ReturnValues != "" {
			in.ReturnValues = aws.String(op.ReturnValues)
		}
		out, err := c.DeleteItem(in)
		if err != nil {
			return fail(err)
		}
		r := model.Result{}
		if op.ReturnOld {
			r.Item = FromV1Item(out.Attributes)
		}
		return r
	case "Get":
		in := &dynamodb.GetItemInput{TableName: aws.String(op.Table), Key: ToV1Item(op.Key),
			ProjectionExpression: strPtrOrNil(op.Projection), ExpressionAttributeNames: v1Names(op.Names), ConsistentRead: boolPtrOrNil(op.Consistent)}
		if op.Shared != "" {
			p, _ := d.shared.LoadOrStore(op.Shared, in)
			in = p.(*dynamodb.GetItemInput)
		}
		out, err := c.GetItem(in)
		if err != nil {
			return fail(err)
		}
		return model.Result{Item: FromV1Item(out.Item)}
	case "Query":
		in := &dynamodb.QueryInput{TableName: aws.String(op.Table), IndexName: strPtrOrNil(op.Index),
			KeyConditionExpression: aws.String(op.KeyCond), FilterExpression: strPtrOrNil(op.Filter),
			ExpressionAttributeNames: v1Names(op.Names), ExpressionAttributeValues: ToV1Item(op.Values),
			ExclusiveStartKey: ToV1Item(op.StartKey), ConsistentRead: boolPtrOrNil(op.Consistent), ProjectionExpression: strPtrOrNil(op.Projection)}
		if op.Limit > 0 {
			in.Limit = aws.Int64(int64(op.Limit))
		}
		if op.Backward {
			in.ScanIndexForward = aws.Bool(false)
		}
		if op.Shared != "" {
			p, _ := d.shared.LoadOrStore(op.Shared, in)
			in = p.(*dynamodb.QueryInput)
		}
		out, err := c.Query(in)
		if err != nil {
			return fail(err)
		}
		return model.Result{Items: fromV1Items(out.Items), Count: int(aws.Int64Value(out.Count)), LastKey: FromV1Item(out.LastEvaluatedKey)}
	case "Scan":
		in := &dynamodb.ScanInput{TableName: aws.String(op.Table), IndexName: strPtrOrNil(op.Index),
			FilterExpression: strPtrOrNil(op.Filter), ExpressionAttributeNames: v1Names(op.Names), ExpressionAttributeValues: ToV1Item(op.Values),
			ExclusiveStartKey: ToV1Item(op.StartKey), ConsistentRead: boolPtrOrNil(op.Consistent), ProjectionExpression: strPtrOrNil(op.Projection)}
		if op.Limit > 0 {
			in.Limit = aws.Int64(int64(op.Limit))
		}
		if op.Shared != "" {
			p, _ := d.shared.LoadOrStore(op.Shared, in)
			in = p.(*dynamodb.ScanInput)
		}
		out, err := c.Scan(in)
		if err != nil {
			return fail(err)
		}
		return model.Result{Items: fromV1Items(out.Items), Count: int(aws.Int64Value(out.Count)), LastKey: FromV1Item(out.LastEvaluatedKey)}
	case "BatchWrite":
		in := &dynamodb.BatchWriteItemInput{RequestItems: map[string][]*dynamodb.WriteRequest{}}
		for _, tb := range op.Batch {
			for _, r := range tb.Reqs {
				wr := &dynamodb.WriteRequest{}
				if r.Put != nil || r.Both {
					wr.PutRequest = &dynamodb.PutRequest{Item: ToV1Item(r.Put)}
				}
				if r.Delete != nil || r.Both {
					wr.DeleteRequest = &dynamodb.DeleteRequest{Key: ToV1Item(r.Delete)}
				}
				in.RequestItems[tb.Table] = append(in.RequestItems[tb.Table], wr)
			}
		}
		out, err := c.BatchWriteItem(in)
		if op.Repeat {
			// the same request object again (puts and deletes are idempotent)
			out, err = c.BatchWriteItem(in)
		}
		if err != nil {
			return fail(err)
		}
		r := model.Result{}
		if len(out.ItemCollectionMetrics) > 0 {
			var ms []string
			for t, l := range out.ItemCollectionMetrics {
				ms = append(ms, fmt.Sprintf("%s:%d", t, len(l)))
			}
			sort.Strings(ms)
			r.Metrics = strings.Join(ms, " ")
		}
		tables := make([]string, 0, len(out.UnprocessedItems))
		for t := range out.UnprocessedItems {
			tables = append(tables, t)
		}
		sort.Strings(tables)
		for _, t := range tables {
			tb := model.TableBatch{Table: t}
			for _, wr := range out.UnprocessedItems[t] {
				var w model.WriteReq
				if wr.PutRequest != nil {
					w.Put = FromV1Item(wr.PutRequest.Item)
				}
				if wr.DeleteRequest != nil {
					w.Delete = FromV1Item(wr.DeleteRequest.Key)
				}
				tb.Reqs = append(tb.Reqs, w)
			}
			if len(tb.Reqs) > 0 {
				r.Unprocessed = append(r.Unprocessed, tb)
			}
		}
		return r
	case "BatchGet":
		// the v1 client does not implement BatchGetItem
		return model.Result{Err: "Other:not implemented"}
	}
	return model.Result{Err: "Other:unknown op " + op.Kind}
}

// Package drv translates abstract operations into calls on the real minidyn
// clients and normalises their responses into model types.
package drv

import (
	"context"
	"errors"
	"fmt"
	"runtime"
	"sort"
	"strings"
	"sync"

	"github.com/aws/aws-sdk-go-v2/aws"
	"github.com/aws/aws-sdk-go-v2/service/dynamodb"
	"github.com/aws/aws-sdk-go-v2/service/dynamodb/types"
	"github.com/aws/smithy-go"
	v2client "github.com/truora/minidyn/aws-v2/client"
	"github.com/truora/minidyn/interpreter"
	mtypes "github.com/truora/minidyn/types"

	"verifharness/model"
)

// Driver executes abstract operations.
type Driver interface {
	Name() string
	Apply(op model.Op) model.Result
	// Snapshot is a canonical dump of the complete internal state.
	Snapshot() string
}

// ---------------------------------------------------------------- conversions

// ToV2 converts a model value to the SDK v2 representation.
func ToV2(a model.AV) types.AttributeValue {
	switch a.T {
	case "S":
		return &types.AttributeValueMemberS{Value: a.S}
	case "N":
		return &types.AttributeValueMemberN{Value: a.S}
	case "B":
		return &types.AttributeValueMemberB{Value: append([]byte{}, a.B...)}
	case "BOOL":
		return &types.AttributeValueMemberBOOL{Value: a.Bool}
	case "NULL":
		return &types.AttributeValueMemberNULL{Value: true}
	case "L":
		l := make([]types.AttributeValue, len(a.L))
		for i, e := range a.L {
			l[i] = ToV2(e)
		}
		return &types.AttributeValueMemberL{Value: l}
	case "M":
		return &types.AttributeValueMemberM{Value: ToV2Item(a.M)}
	case "SS":
		return &types.AttributeValueMemberSS{Value: append([]string{}, a.SS...)}
	case "NS":
		return &types.AttributeValueMemberNS{Value: append([]string{}, a.SS...)}
	case "BS":
		b := make([][]byte, len(a.BS))
		for i, e := range a.BS {
			b[i] = append([]byte{}, e...)
		}
		return &types.AttributeValueMemberBS{Value: b}
	}
	panic("ToV2: bad type " + a.T)
}

// ToV2Item converts an item; nil gives nil.
func ToV2Item(it model.Item) map[string]types.AttributeValue {
	if it == nil {
		return nil
	}
	out := make(map[string]types.AttributeValue, len(it))
	for k, v := range it {
		out[k] = ToV2(v)
	}
	return out
}

// FromV2 converts an SDK v2 value to the model representation.
func FromV2(v types.AttributeValue) model.AV {
	switch x := v.(type) {
	case *types.AttributeValueMemberS:
		return model.Str(x.Value)
	case *types.AttributeValueMemberN:
		return model.Num(x.Value)
	case *types.AttributeValueMemberB:
		return model.AV{T: "B", B: append([]byte{}, x.Value...)}
	case *types.AttributeValueMemberBOOL:
		return model.Bool(x.Value)
	case *types.AttributeValueMemberNULL:
		return model.Null()
	case *types.AttributeValueMemberL:
		out := model.AV{T: "L"}
		for _, e := range x.Value {
			out.L = append(out.L, FromV2(e))
		}
		return out
	case *types.AttributeValueMemberM:
		return model.AV{T: "M", M: FromV2Item(x.Value)}
	case *types.AttributeValueMemberSS:
		return model.AV{T: "SS", SS: append([]string{}, x.Value...)}
	case *types.AttributeValueMemberNS:
		return model.AV{T: "NS", SS: append([]string{}, x.Value...)}
	case *types.AttributeValueMemberBS:
		out := model.AV{T: "BS"}
		for _, e := range x.Value {
			out.BS = append(out.BS, append([]byte{}, e...))
		}
		return out
	case nil:
		return model.AV{T: "?nil"}
	}
	return model.AV{T: fmt.Sprintf("?%T", v)}
}

// FromV2Item converts an item (nil and empty both give an empty item).
func FromV2Item(it map[string]types.AttributeValue) model.Item {
	out := model.Item{}
	for k, v := range it {
		out[k] = FromV2(v)
	}
	return out
}

func fromV2Items(items []map[string]types.AttributeValue) []model.Item {
	out := make([]model.Item, 0, len(items))
	for _, it := range items {
		out = append(out, FromV2Item(it))
	}
	return out
}

// ---------------------------------------------------------------- errors

func classCode(code string) string {
	switch code {
	case "ValidationException":
		return model.ErrValidation
	case "ConditionalCheckFailedException":
		return model.ErrCondFailed
	case "ResourceNotFoundException":
		return model.ErrNotFound
	case "ResourceInUseException":
		return model.ErrInUse
	case "InternalServerError":
		return model.ErrInternal
	}
	return "Other:" + code
}

// ClassifyCommon handles the error shapes shared by both clients.
func classifyCommon(err error) (string, bool) {
	var me mtypes.Error
	if errors.As(err, &me) {
		return classCode(me.Code()), true
	}
	if errors.Is(err, interpreter.ErrSyntaxError) {
		return model.ErrSyntax, true
	}
	if errors.Is(err, interpreter.ErrUnsupportedFeature) {
		return model.ErrUnsupported, true
	}
	return "", false
}

// ClassifyV2 maps an error returned by the v2 client to an error class.
func ClassifyV2(err error) string {
	if err == nil {
		return model.ErrNone
	}
	if errors.Is(err, v2client.ErrForcedFailure) {
		return model.ErrForced
	}
	var ae smithy.APIError
	if errors.As(err, &ae) {
		return classCode(ae.ErrorCode())
	}
	if c, ok := classifyCommon(err); ok {
		// The SDK v2 client reports a missing or an existing table with the SDK's
		// own error types (errors.As on *types.ResourceNotFoundException is how
		// callers tell the classes apart): the library's internal error with the
		// same code is not "a resource-not-found error" to such a caller.
		if c == model.ErrNotFound || c == model.ErrInUse {
			return "Other:" + c + " as an internal error, not as the SDK's error type: " + err.Error()
		}
		return c
	}
	if errors.Is(err, v2client.ErrResourceNotFoundException) {
		return model.ErrNotFound
	}
	return "Other:" + err.Error()
}

// ClassifyPanic maps a recovered panic value to a class.
func ClassifyPanic(r interface{}) (string, string) {
	if err, ok := r.(error); ok {
		if _, isRT := err.(runtime.Error); isRT {
			return model.ErrRuntimePanic, err.Error()
		}
		if errors.Is(err, interpreter.ErrSyntaxError) {
			return model.ErrSyntaxPanic, err.Error()
		}
		if errors.Is(err, interpreter.ErrUnsupportedFeature) {
			return model.ErrUnsupPanic, err.Error()
		}
		return model.ErrRuntimePanic, "panic(error): " + err.Error()
	}
	return model.ErrRuntimePanic, fmt.Sprintf("panic: %v", r)
}

// ---------------------------------------------------------------- driver

// V2 drives the aws-sdk-go-v2 client.
type V2 struct {
	C *v2client.Client
	// shared: request objects handed to the client by several calls (Op.Shared)
	shared sync.Map
}

// NewV2 returns a driver with a fresh client.
func NewV2() *V2 { return &V2{C: v2client.NewClient()} }

func (d *V2) Name() string { return "v2" }

func (d *V2) Snapshot() string {
	var sb strings.Builder
	for _, n := range d.C.VerifTableNames() {
		sb.WriteString(d.C.VerifTable(n).VerifSnapshot())
	}
	fmt.Fprintf(&sb, "failure=%t\n", d.C.VerifFailureActive())
	return sb.String()
}

func strPtrOrNil(s string) *string {
	if s == "" {
		return nil
	}
	return aws.String(s)
}

func v2Names(m map[string]string) map[string]string {
	if m == nil {
		return nil
	}
	out := make(map[string]string, len(m))
	for k, v := range m {
		out[k] = v
	}
	return out
}

func v2KeySchema(hash, rng string) []types.KeySchemaElement {
	var ks []types.KeySchemaElement
	if hash != "" {
		ks = append(ks, types.KeySchemaElement{AttributeName: aws.String(hash), KeyType: types.KeyTypeHash})
	}
	if rng != "" {
		ks = append(ks, types.KeySchemaElement{AttributeName: aws.String(rng), KeyType: types.KeyTypeRange})
	}
	return ks
}

func v2AttrDefs(attrs map[string]string) []types.AttributeDefinition {
	names := make([]string, 0, len(attrs))
	for k := range attrs {
		names = append(names, k)
	}
	sort.Strings(names)
	var out []types.AttributeDefinition
	for _, n := range names {
		out = append(out, types.AttributeDefinition{AttributeName: aws.String(n), AttributeType: types.ScalarAttributeType(attrs[n])})
	}
	return out
}

func v2Throughput() *types.ProvisionedThroughput {
	return &types.ProvisionedThroughput{ReadCapacityUnits: aws.Int64(5), WriteCapacityUnits: aws.Int64(5)}
}

func v2Desc(td *types.TableDescription) *model.Desc {
	if td == nil {
		return nil
	}
	d := &model.Desc{Table: aws.ToString(td.TableName), Count: int(aws.ToInt64(td.ItemCount))}
	for _, k := range td.KeySchema {
		if k.KeyType == types.KeyTypeHash {
			d.Hash = aws.ToString(k.AttributeName)
		} else {
			d.Range = aws.ToString(k.AttributeName)
		}
	}
	for _, g := range td.GlobalSecondaryIndexes {
		id := model.IndexDesc{Name: aws.ToString(g.IndexName), Global: true, HasCount: g.ItemCount != nil, Count: int(aws.ToInt64(g.ItemCount))}
		for _, k := range g.KeySchema {
			if k.KeyType == types.KeyTypeHash {
				id.Hash = aws.ToString(k.AttributeName)
			} else {
				id.Range = aws.ToString(k.AttributeName)
			}
		}
		d.Indexes = append(d.Indexes, id)
	}
	for _, l := range td.LocalSecondaryIndexes {
		id := model.IndexDesc{Name: aws.ToString(l.IndexName), Global: false, HasCount: l.ItemCount != nil, Count: int(aws.ToInt64(l.ItemCount))}
		for _, k := range l.KeySchema {
			if k.KeyType == types.KeyTypeHash {
				id.Hash = aws.ToString(k.AttributeName)
			} else {
				id.Range = aws.ToString(k.AttributeName)
			}
		}
		d.Indexes = append(d.Indexes, id)
	}
	sort.SliceStable(d.Indexes, func(i, j int) bool { return d.Indexes[i].Name < d.Indexes[j].Name })
	return d
}

// Apply executes the operation on the real client inside recover().
func (d *V2) Apply(op model.Op) (res model.Result) {
	defer func() {
		if r := recover(); r != nil {
			cls, text := ClassifyPanic(r)
			res = model.Result{Err: cls, ErrText: text}
		}
	}()
	ctx := context.Background()
	c := d.C
	fail := func(err error) model.Result {
		return model.Result{Err: ClassifyV2(err), ErrText: err.Error()}
	}
	switch op.Kind {
	case "CreateTable":
		s := op.Schema
		if s.ViaAddTable {
			if err := v2client.AddTable(ctx, c, s.Table, s.Hash, s.Range); err != nil {
				return fail(err)
			}
			return model.Result{}
		}
		in := &dynamodb.CreateTableInput{
			TableName:            aws.String(s.Table),
			AttributeDefinitions: v2AttrDefs(s.Attrs),
			KeySchema:            v2KeySchema(s.Hash, s.Range),
		}
		if s.Billing == "PAY_PER_REQUEST" {
			in.BillingMode = types.BillingModePayPerRequest
		} else {
			in.BillingMode = types.BillingModeProvisioned
		}
		if !s.NoThroughput {
			in.ProvisionedThroughput = v2Throughput()
		}
		for _, ix := range s.Indexes {
			if ix.Global {
				g := types.GlobalSecondaryIndex{IndexName: aws.String(ix.Name), KeySchema: v2KeySchema(ix.Hash, ix.Range),
					Projection: &types.Projection{ProjectionType: types.ProjectionTypeAll}}
				if !ix.NoThroughput {
					g.ProvisionedThroughput = v2Throughput()
				}
				in.GlobalSecondaryIndexes = append(in.GlobalSecondaryIndexes, g)
			} else {
				in.LocalSecondaryIndexes = append(in.LocalSecondaryIndexes, types.LocalSecondaryIndex{IndexName: aws.String(ix.Name),
					KeySchema: v2KeySchema(ix.Hash, ix.Range), Projection: &types.Projection{ProjectionType: types.ProjectionTypeAll}})
			}
		}
		if s.EmptyGSIList && in.GlobalSecondaryIndexes == nil {
			in.GlobalSecondaryIndexes = []types.GlobalSecondaryIndex{}
		}
		if s.EmptyLSIList && in.LocalSecondaryIndexes == nil {
			in.LocalSecondaryIndexes = []types.LocalSecondaryIndex{}
		}
		out, err := c.CreateTable(ctx, in)
		if err != nil {
			return fail(err)
		}
		return model.Result{Desc: v2Desc(out.TableDescription)}
	case "DeleteTable":
		out, err := c.DeleteTable(ctx, &dynamodb.DeleteTableInput{TableName: aws.String(op.Table)})
		if err != nil {
			return fail(err)
		}
		return model.Result{Desc: v2Desc(out.TableDescription)}
	case "DescribeTable":
		out, err := c.DescribeTable(ctx, &dynamodb.DescribeTableInput{TableName: aws.String(op.Table)})
		if err != nil {
			return fail(err)
		}
		return model.Result{Desc: v2Desc(out.Table)}
	case "AddIndex":
		ix := op.IndexSchema
		if ix.ViaHelper {
			if err := v2client.AddIndex(ctx, c, op.Table, ix.Name, ix.Hash, ix.Range); err != nil {
				return fail(err)
			}
			return model.Result{}
		}
		act := &types.CreateGlobalSecondaryIndexAction{IndexName: aws.String(ix.Name), KeySchema: v2KeySchema(ix.Hash, ix.Range),
			Projection: &types.Projection{ProjectionType: types.ProjectionTypeAll}}
		if !ix.NoThroughput {
			act.ProvisionedThroughput = v2Throughput()
		}
		out, err := c.UpdateTable(ctx, &dynamodb.UpdateTableInput{TableName: aws.String(op.Table),
			AttributeDefinitions:        v2AttrDefs(op.IndexAttrs),
			GlobalSecondaryIndexUpdates: []types.GlobalSecondaryIndexUpdate{{Create: act}}})
		if err != nil {
			r := fail(err)
			if out != nil {
				r.Desc = v2Desc(out.TableDescription)
			}
			return r
		}
		return model.Result{Desc: v2Desc(out.TableDescription)}
	case "DeclareAttrs": // UpdateTable that carries attribute definitions and no index action
		out, err := c.UpdateTable(ctx, &dynamodb.UpdateTableInput{TableName: aws.String(op.Table), AttributeDefinitions: v2AttrDefs(op.IndexAttrs)})
		if err != nil {
			return fail(err)
		}
		return model.Result{Desc: v2Desc(out.TableDescription)}
	case "DeleteIndex":
		out, err := c.UpdateTable(ctx, &dynamodb.UpdateTableInput{TableName: aws.String(op.Table),
			GlobalSecondaryIndexUpdates: []types.GlobalSecondaryIndexUpdate{{Delete: &types.DeleteGlobalSecondaryIndexAction{IndexName: aws.String(op.Index)}}}})
		if err != nil {
			return fail(err)
		}
		return model.Result{Desc: v2Desc(out.TableDescription)}
	case "SetMetrics":
		v2client.SetItemCollectionMetrics(c, map[string][]types.ItemCollectionMetrics{
			"tbl":  {{ItemCollectionKey: map[string]types.AttributeValue{"pk": &types.AttributeValueMemberS{Value: "a"}}}},
			"tbl2": {{ItemCollectionKey: map[string]types.AttributeValue{"pk": &types.AttributeValueMemberS{Value: "b"}}}},
		})
		return model.Result{}
	case "NativeGet":
		_ = c.GetNativeInterpreter()
		return model.Result{}
	case "NativeSet":
		c.SetInterpreter(interpreter.NewNativeInterpreter())
		return model.Result{}
	case "NativeActivate":
		c.ActivateNativeInterpreter()
		return model.Result{}
	case "ClearTable":
		if err := v2client.ClearTable(c, op.Table); err != nil {
			return fail(err)
		}
		return model.Result{}
	case "SetFailure":
		switch op.Via {
		case "active":
			v2client.ActiveForceFailure(c)
		case "deactive":
			v2client.DeactiveForceFailure(c)
		default:
			v2client.EmulateFailure(c, v2client.FailureCondition(op.Failure))
		}
		return model.Result{}
	case "TransactWrite":
		_, err := c.TransactWriteItems(ctx, &dynamodb.TransactWriteItemsInput{})
		if err != nil {
			return fail(err)
		}
		return model.Result{}
	case "Put":
		in := &dynamodb.PutItemInput{TableName: aws.String(op.Table), Item: ToV2Item(op.Item),
			ConditionExpression: strPtrOrNil(op.Cond), ExpressionAttributeNames: v2Names(op.Names), ExpressionAttributeValues: ToV2Item(op.Values)}
		if op.ReturnValues != "" {
			in.ReturnValues = types.ReturnValue(op.ReturnValues)
		}
		_, err := c.PutItem(ctx, in)
		if err != nil {
			return v2CondFail(err)
		}
		return model.Result{}
	case "Update":
		in := &dynamodb.UpdateItemInput{TableName: aws.String(op.Table), Key: ToV2Item(op.Key), UpdateExpression: aws.String(op.Update),
			ConditionExpression: strPtrOrNil(op.Cond), ExpressionAttributeNames: v2Names(op.Names), ExpressionAttributeValues: ToV2Item(op.Values)}
		if op.ReturnOnCondFail {
			in.ReturnValuesOnConditionCheckFailure = types.ReturnValuesOnConditionCheckFailureAllOld
		}
		if op.ReturnValues != "" {
			in.ReturnValues = types.ReturnValue(op.ReturnValues)
		}
		out, err := c.UpdateItem(ctx, in)
		if err != nil {
			return v2CondFail(err)
		}
		return model.Result{Item: FromV2Item(out.Attributes)}
	case "Delete":
		in := &dynamodb.DeleteItemInput{TableName: aws.String(op.Table), Key: ToV2Item(op.Key),
			ConditionExpression: strPtrOrNil(op.Cond), ExpressionAttributeNames: v2Names(op.Names), ExpressionAttributeValues: ToV2Item(op.Values)}
		if op.ReturnOld {
			in.ReturnValues = types.ReturnValueAllOld
		}
		if op.ReturnValues != "" {
			in.ReturnValues = types.ReturnValue(op.ReturnValues)
		}
		out, err := c.DeleteItem(ctx, in)
		if err != nil {
			return v2CondFail(err)
		}
		r := model.Result{}
		if op.ReturnOld {
			r.Item = FromV2Item(out.Attributes)
		}
		return r
	case "Get":
		in := &dynamodb.GetItemInput{TableName: aws.String(op.Table), Key: ToV2Item(op.Key),
			ProjectionExpression: strPtrOrNil(op.Projection), ExpressionAttributeNames: v2Names(op.Names), ConsistentRead: boolPtrOrNil(op.Consistent)}
		if op.Shared != "" {
			p, _ := d.shared.LoadOrStore(op.Shared, in)
			in = p.(*dynamodb.GetItemInput)
		}
		out, err := c.GetItem(ctx, in)
		if err != nil {
			return fail(err)
		}
		return model.Result{Item: FromV2Item(out.Item)}
	case "Query":
		in := &dynamodb.QueryInput{TableName: aws.String(op.Table), IndexName: strPtrOrNil(op.Index),
			KeyConditionExpression: strPtrOrNil(op.KeyCond), FilterExpression: strPtrOrNil(op.Filter),
			ExpressionAttributeNames: v2Names(op.Names), ExpressionAttributeValues: ToV2Item(op.Values),
			ExclusiveStartKey: ToV2Item(op.StartKey), ConsistentRead: boolPtrOrNil(op.Consistent), ProjectionExpression: strPtrOrNil(op.Projection)}
		if op.Limit > 0 {
			in.Limit = aws.Int32(int32(op.Limit))
		}
		if op.Backward {
			in.ScanIndexForward = aws.Bool(false)
		}
		if op.Shared != "" {
			p, _ := d.shared.LoadOrStore(op.Shared, in)
			in = p.(*dynamodb.QueryInput)
		}
		out, err := c.Query(ctx, in)
		if err != nil {
			return fail(err)
		}
		return model.Result{Items: fromV2Items(out.Items), Count: int(out.Count), LastKey: FromV2Item(out.LastEvaluatedKey)}
	case "Scan":
		in := &dynamodb.ScanInput{TableName: aws.String(op.Table), IndexName: strPtrOrNil(op.Index),
			FilterExpression: strPtrOrNil(op.Filter), ExpressionAttributeNames: v2Names(op.Names), ExpressionAttributeValues: ToV2Item(op.Values),
			ExclusiveStartKey: ToV2Item(op.StartKey), ConsistentRead: boolPtrOrNil(op.Consistent), ProjectionExpression: strPtrOrNil(op.Projection)}
		if op.Limit > 0 {
			in.Limit = aws.Int32(int32(op.Limit))
		}
		if op.Shared != "" {
			p, _ := d.shared.LoadOrStore(op.Shared, in)
			in = p.(*dynamodb.ScanInput)
		}
		out, err := c.Scan(ctx, in)
		if err != nil {
			return fail(err)
		}
		return model.Result{Items: fromV2Items(out.Items), Count: int(out.Count), LastKey: FromV2Item(out.LastEvaluatedKey)}
	case "BatchWrite":
		in := &dynamodb.BatchWriteItemInput{RequestItems: map[string][]types.WriteRequest{}}
		for _, tb := range op.Batch {
			for _, r := range tb.Reqs {
				var wr types.WriteRequest
				if r.Put != nil || r.Both {
					wr.PutRequest = &types.PutRequest{Item: ToV2Item(r.Put)}
				}
				if r.Delete != nil || r.Both {
					wr.DeleteRequest = &types.DeleteRequest{Key: ToV2Item(r.Delete)}
				}
				in.RequestItems[tb.Table] = append(in.RequestItems[tb.Table], wr)
			}
		}
		out, err := c.BatchWriteItem(ctx, in)
		if op.Repeat {
			// the same request object again (puts and deletes are idempotent)
			out, err = c.BatchWriteItem(ctx, in)
		}
		if err != nil {
			return fail(err)
		}
		r := model.Result{}
		if len(out.ItemCollectionMetrics) > 0 {
			var ms []string
			for t, l := range out.ItemCollectionMetrics {
				ms = append(ms, fmt.Sprintf("%s:%d", t, len(l)))
			}
			sort.Strings(ms)
			r.Metrics = strings.Join(ms, " ")
		}
		tables := make([]string, 0, len(out.UnprocessedItems))
		for t := range out.UnprocessedItems {
			tables = append(tables, t)
		}
		sort.Strings(tables)
		for _, t := range tables {
			tb := model.TableBatch{Table: t}
			for _, wr := range out.UnprocessedItems[t] {
				var w model.WriteReq
				if wr.PutRequest != nil {
					w.Put = FromV2Item(wr.PutRequest.Item)
				}
				if wr.DeleteRequest != nil {
					w.Delete = FromV2Item(wr.DeleteRequest.Key)
				}
				tb.Reqs = append(tb.Reqs, w)
			}
			if len(tb.Reqs) > 0 {
				r.Unprocessed = append(r.Unprocessed, tb)
			}
		}
		return r
	case "BatchGet":
		in := &dynamodb.BatchGetItemInput{RequestItems: map[string]types.KeysAndAttributes{}}
		for _, tb := range op.Batch {
			ka := in.RequestItems[tb.Table]
			for _, k := range tb.Keys {
				ka.Keys = append(ka.Keys, ToV2Item(k))
			}
			ka.ConsistentRead = boolPtrOrNil(op.Consistent)
			ka.ProjectionExpression = strPtrOrNil(tb.Projection)
			ka.ExpressionAttributeNames = v2Names(tb.Names)
			in.RequestItems[tb.Table] = ka
		}
		out, err := c.BatchGetItem(ctx, in)
		if op.Repeat {
			// the same request object again, as a retry loop would send it
			out, err = c.BatchGetItem(ctx, in)
		}
		if err != nil {
			return fail(err)
		}
		r := model.Result{}
		tables := make([]string, 0, len(out.Responses))
		for t := range out.Responses {
			tables = append(tables, t)
		}
		sort.Strings(tables)
		for _, t := range tables {
			r.Responses = append(r.Responses, model.TableBatch{Table: t, Keys: fromV2Items(out.Responses[t])})
		}
		tables = tables[:0]
		for t := range out.UnprocessedKeys {
			tables = append(tables, t)
		}
		sort.Strings(tables)
		for _, t := range tables {
			if len(out.UnprocessedKeys[t].Keys) > 0 {
				r.UnprocessedKeys = append(r.UnprocessedKeys, model.TableBatch{Table: t, Keys: fromV2Items(out.UnprocessedKeys[t].Keys)})
			}
		}
		return r
	}
	return model.Result{Err: "Other:unknown op " + op.Kind}
}

func v2CondFail(err error) model.Result {
	r := model.Result{Err: ClassifyV2(err), ErrText: err.Error()}
	var cf *types.ConditionalCheckFailedException
	if errors.As(err, &cf) && cf.Item != nil {
		r.CondItem = FromV2Item(cf.Item)
	}
	return r
}

package drv

import (
	"sort"

	"github.com/truora/minidyn/core"

	"verifharness/model"
)

// IndexWB is the internal bookkeeping of one index.
type IndexWB struct {
	Refs       map[string]string
	SortedKeys []string
	Typ        string
	Hash       string
	Range      string
}

// WB is a white-box view of one table.
type WB struct {
	SortedKeys []string
	DataKeys   []string
	Indexes    map[string]IndexWB
}

func whitebox(t *core.Table) *WB {
	if t == nil {
		return nil
	}
	wb := &WB{SortedKeys: append([]string{}, t.SortedKeys...), Indexes: map[string]IndexWB{}}
	for k := range t.Data {
		wb.DataKeys = append(wb.DataKeys, k)
	}
	sort.Strings(wb.DataKeys)
	for _, n := range t.VerifIndexNames() {
		refs, sk, typ, h, r, _ := t.VerifIndexState(n)
		wb.Indexes[n] = IndexWB{Refs: refs, SortedKeys: sk, Typ: typ, Hash: h, Range: r}
	}
	return wb
}

// Whitebox returns the internal state of a table (nil if absent).
func (d *V2) Whitebox(table string) *WB { return whitebox(d.C.VerifTable(table)) }

// Whitebox returns the internal state of a table (nil if absent).
func (d *V1) Whitebox(table string) *WB { return whitebox(d.C.VerifTable(table)) }

// TableNames lists the client's tables.
func (d *V2) TableNames() []string { return d.C.VerifTableNames() }

// TableNames lists the client's tables.
func (d *V1) TableNames() []string { return d.C.VerifTableNames() }

// Real is a driver backed by a real client.
type Real interface {
	Driver
	Whitebox(table string) *WB
	TableNames() []string
}

// Model wraps the reference model as a driver.
type Model struct{ DB *model.DB }

func (m *Model) Name() string                   { return "model" }
func (m *Model) Apply(op model.Op) model.Result { return m.DB.Apply(op) }
func (m *Model) Snapshot() string               { return "" }

// Package stats collects per-run evidence: how many cases were generated, how
// many distinct non-trivial ones, the class distribution and samples.
package stats

import (
	"encoding/json"
	"hash/fnv"
	"os"
	"sort"
	"sync"
)

// Collector gathers evidence for one property in one process.
type Collector struct {
	mu          sync.Mutex
	Property    string
	Rule        string
	Evaluations int64
	Steps       int64
	Weak        int64
	Classes     map[string]int64
	Excluded    map[string]int64
	Extra       map[string]interface{}
	hashes      map[uint64]struct{}
	first       []json.RawMessage
	last        []json.RawMessage
	Violations  int64
}

var (
	regMu sync.Mutex
	reg   = map[string]*Collector{}
)

// For returns the collector of a property (created on first use).
func For(prop string) *Collector {
	regMu.Lock()
	defer regMu.Unlock()
	c, ok := reg[prop]
	if !ok {
		c = &Collector{Property: prop, Classes: map[string]int64{}, Excluded: map[string]int64{}, Extra: map[string]interface{}{}, hashes: map[uint64]struct{}{}}
		reg[prop] = c
	}
	return c
}

// SetRule records the generation / non-triviality rule text.
func (c *Collector) SetRule(r string) {
	c.mu.Lock()
	c.Rule = r
	c.mu.Unlock()
}

// Case records one generated and executed case. canonical is any
// JSON-serialisable description of the case; it is hashed for the distinct
// count and kept as a sample when nontrivial.
func (c *Collector) Case(nontrivial bool, canonical interface{}) {
	c.mu.Lock()
	defer c.mu.Unlock()
	c.Evaluations++
	if !nontrivial {
		return
	}
	b, err := json.Marshal(canonical)
	if err != nil {
		return
	}
	h := fnv.New64a()
	h.Write(b)
	k := h.Sum64()
	if _, seen := c.hashes[k]; seen {
		return
	}
	c.hashes[k] = struct{}{}
	if len(b) > 6000 {
		return // keep samples readable
	}
	if len(c.first) < 3 {
		c.first = append(c.first, json.RawMessage(b))
		return
	}
	c.last = append(c.last, json.RawMessage(b))
	if len(c.last) > 3 {
		c.last = c.last[1:]
	}
}

// Class increments a classification counter.
func (c *Collector) Class(name string) { c.ClassN(name, 1) }

// ClassN adds n to a classification counter.
func (c *Collector) ClassN(name string, n int64) {
	c.mu.Lock()
	c.Classes[name] += n
	c.mu.Unlock()
}

// Exclude counts a case or step removed by a known-finding guard.
func (c *Collector) Exclude(finding string) {
	c.mu.Lock()
	c.Excluded[finding]++
	c.mu.Unlock()
}

// Step counts executed steps of a history.
func (c *Collector) Step(n int64) {
	c.mu.Lock()
	c.Steps += n
	c.mu.Unlock()
}

// WeakCase counts a weakly decided case.
func (c *Collector) WeakCase() {
	c.mu.Lock()
	c.Weak++
	c.mu.Unlock()
}

// Violation counts a failing execution.
func (c *Collector) Violation() {
	c.mu.Lock()
	c.Violations++
	c.mu.Unlock()
}

// SetExtra stores an additional evidence key.
func (c *Collector) SetExtra(k string, v interface{}) {
	c.mu.Lock()
	c.Extra[k] = v
	c.mu.Unlock()
}

type dump struct {
	Property    string                 `json:"property"`
	Rule        string                 `json:"rule"`
	Evaluations int64                  `json:"evaluations"`
	Steps       int64                  `json:"steps"`
	Weak        int64                  `json:"weakly_decided"`
	Classes     map[string]int64       `json:"classes"`
	Excluded    map[string]int64       `json:"excluded_known"`
	Extra       map[string]interface{} `json:"extra"`
	Hashes      []uint64               `json:"hashes"`
	Samples     []json.RawMessage      `json:"samples"`
	Violations  int64                  `json:"violations"`
}

// FlushAll writes every collector to the file named by VERIF_STATS (JSON
// lines, one per property). No-op when the variable is unset.
func FlushAll() {
	path := os.Getenv("VERIF_STATS")
	if path == "" {
		return
	}
	f, err := os.Create(path)
	if err != nil {
		return
	}
	defer f.Close()
	enc := json.NewEncoder(f)
	regMu.Lock()
	defer regMu.Unlock()
	names := make([]string, 0, len(reg))
	for n := range reg {
		names = append(names, n)
	}
	sort.Strings(names)
	for _, n := range names {
		c := reg[n]
		c.mu.Lock()
		d := dump{Property: c.Property, Rule: c.Rule, Evaluations: c.Evaluations, Steps: c.Steps, Weak: c.Weak,
			Classes: c.Classes, Excluded: c.Excluded, Extra: c.Extra, Violations: c.Violations}
		for h := range c.hashes {
			d.Hashes = append(d.Hashes, h)
		}
		d.Samples = append(append([]json.RawMessage{}, c.first...), c.last...)
		c.mu.Unlock()
		enc.Encode(d)
	}
}

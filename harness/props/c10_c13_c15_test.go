package props

import (
	"encoding/json"
	"fmt"
	"strings"
	"testing"

	aws1 "github.com/aws/aws-sdk-go/aws"
	ddb1 "github.com/aws/aws-sdk-go/service/dynamodb"
	"pgregory.net/rapid"

	"verifharness/drv"
	"verifharness/gen"
	"verifharness/model"
	"verifharness/stats"
)

// ---------------------------------------------------------------- C10

type c10Case struct {
	Item       model.Item `json:"item"`
	WithUpdate bool       `json:"withUpdate"`
	// Share: in the SDK v1 request the equal attributes dupA / dupB and the
	// elements of duplist are one and the same *AttributeValue (callers reuse
	// constants); the stored item must not depend on that
	Share bool `json:"share,omitempty"`
	// Bulk: that many further items (short binaries, binary sets, nested
	// binaries, numbers) are written to the same partition afterwards; then
	// every item is read back (Get, Query, BatchGet in chunks of <= 100 keys)
	Bulk int `json:"bulk,omitempty"`
}

// c10BulkItem is the i-th extra item of a bulk case.
func c10BulkItem(pk model.AV, i int) model.Item {
	bin := func(seed, n int) []byte {
		b := make([]byte, n)
		for j := range b {
			b[j] = byte(seed*31 + j*7 + i)
		}
		return b
	}
	return model.Item{"pk": pk.Clone(), "sk": model.Str(fmt.Sprintf("bulk-%04d", i)),
		"digest": model.Bin(bin(1, 32)), "tags": model.BinSet(bin(2, 20), bin(3, 24)),
		"doc": model.Map(map[string]model.AV{"raw": model.Bin(bin(4, 48)), "l": model.List(model.Bin(bin(5, 16)), model.Num(fmt.Sprint(i)))}),
		"n":   model.Num(fmt.Sprint(i * 3)), "s": model.Str(fmt.Sprintf("value-%d", i))}
}

func boundaryMembers(it model.Item) []string {
	set := map[string]bool{}
	model.WalkItem(it, func(a model.AV) {
		switch {
		case a.T == "S" && a.S == "":
			set["empty-string"] = true
		case a.T == "B" && len(a.B) == 0:
			set["empty-binary"] = true
		case a.T == "L" && len(a.L) == 0:
			set["empty-list"] = true
		case a.T == "M" && len(a.M) == 0:
			set["empty-map"] = true
		case a.T == "BOOL" && !a.Bool:
			set["false"] = true
		case a.T == "NULL":
			set["null"] = true
		case (a.T == "SS" || a.T == "NS") && len(a.SS) == 1, a.T == "BS" && len(a.BS) == 1:
			set["single-element-set"] = true
		case a.T == "N" && model.MustDec(a.S).Plain() != a.S:
			set["non-canonical-numeral"] = true
		}
	})
	out := []string{}
	for k := range set {
		out = append(out, k)
	}
	return out
}

func runC10(c c10Case) (fl *failure) {
	defer func() {
		if r := recover(); r != nil {
			fl = newFail("runtime panic", "C10 %v", r)
		}
	}()
	for _, d := range realDrivers() {
		if d.Name() == "v2" && open("F-V2EMPTY") && hasEmptyLM(c.Item) {
			continue
		}
		s := &model.Schema{Table: "tbl", Hash: "pk", Range: "sk", Attrs: map[string]string{"pk": "S", "sk": "S"}, Billing: "PAY_PER_REQUEST"}
		if r := d.Apply(model.Op{Kind: "CreateTable", Schema: s}); r.Err != "" {
			return newFail("harness: table creation failed", "%s: %s", d.Name(), r.ErrText)
		}
		want := model.CloneItem(c.Item)
		key := model.Item{"pk": want["pk"], "sk": want["sk"]}
		if v1, isV1 := d.(*drv.V1); isV1 && c.Share {
			in := drv.ToV1Item(c.Item)
			if a, ok := in["dupA"]; ok {
				in["dupB"] = a
			}
			if l, ok := in["duplist"]; ok && len(l.L) > 0 {
				for i := range l.L {
					l.L[i] = l.L[0]
				}
			}
			if _, err := v1.C.PutItem(&ddb1.PutItemInput{TableName: aws1.String("tbl"), Item: in}); err != nil {
				return newFail("valid item rejected", "v1 PutItem with shared sub-values: %v", err)
			}
		} else if r := d.Apply(model.Op{Kind: "Put", Table: "tbl", Item: c.Item}); r.Err != "" {
			return newFail("valid item rejected", "%s PutItem: %s %s", d.Name(), r.Err, r.ErrText)
		}
		if c.WithUpdate {
			r := d.Apply(model.Op{Kind: "Update", Table: "tbl", Key: key, Update: "SET zz9 = :v", Values: map[string]model.AV{":v": model.Str("touched")}})
			if r.Err != "" {
				return newFail("update of a valid item rejected", "%s UpdateItem on %s: %s %s", d.Name(), model.CanonItem(c.Item), r.Err, r.ErrText)
			}
			want["zz9"] = model.Str("touched")
		}
		reads := []struct {
			name string
			op   model.Op
		}{
			{"GetItem", model.Op{Kind: "Get", Table: "tbl", Key: key}},
			{"Query", model.Op{Kind: "Query", Table: "tbl", KeyCond: "pk = :h", Values: map[string]model.AV{":h": want["pk"]}}},
			{"Scan", model.Op{Kind: "Scan", Table: "tbl"}},
		}
		if d.Name() == "v2" {
			reads = append(reads, struct {
				name string
				op   model.Op
			}{"BatchGetItem", model.Op{Kind: "BatchGet", Batch: []model.TableBatch{{Table: "tbl", Keys: []model.Item{key}}}}})
		}
		for _, rd := range reads {
			r := d.Apply(rd.op)
			if r.Err != "" {
				return newFail("read of a stored item failed", "%s %s: %s %s", d.Name(), rd.name, r.Err, r.ErrText)
			}
			var got []model.Item
			switch rd.name {
			case "GetItem":
				got = []model.Item{r.Item}
			case "BatchGetItem":
				for _, tb := range r.Responses {
					got = append(got, tb.Keys...)
				}
			default:
				got = r.Items
			}
			if len(got) != 1 || !model.ItemEqual(want, got[0]) {
				return newFail("round trip changed the item", "%s %s: wrote %s read %v", d.Name(), rd.name, model.CanonItem(want), model.CanonItems(got))
			}
		}
		if c.Bulk > 0 {
			all := []model.Item{want}
			for i := 0; i < c.Bulk; i++ {
				it := c10BulkItem(want["pk"], i)
				if r := d.Apply(model.Op{Kind: "Put", Table: "tbl", Item: it}); r.Err != "" {
					return newFail("valid item rejected", "%s PutItem (bulk item %d): %s %s", d.Name(), i, r.Err, r.ErrText)
				}
				all = append(all, it)
			}
			for i, it := range all {
				k := model.Item{"pk": it["pk"], "sk": it["sk"]}
				r := d.Apply(model.Op{Kind: "Get", Table: "tbl", Key: k})
				if r.Err != "" || !model.ItemEqual(it, r.Item) {
					return newFail("round trip changed the item", "%s GetItem after %d further writes: item %d wrote %s read %s %s", d.Name(), c.Bulk, i, model.CanonItem(it), model.CanonItem(r.Item), r.Err)
				}
			}
			q := d.Apply(model.Op{Kind: "Query", Table: "tbl", KeyCond: "pk = :h", Values: map[string]model.AV{":h": want["pk"]}})
			if q.Err != "" || !model.MultisetEqual(all, q.Items) {
				return newFail("round trip changed the item", "%s Query after %d further writes: %d items written, %d read %s", d.Name(), c.Bulk, len(all), len(q.Items), q.Err)
			}
			if d.Name() == "v2" {
				for from := 0; from < len(all); from += 100 {
					to := from + 100
					if to > len(all) {
						to = len(all)
					}
					var keys []model.Item
					for _, it := range all[from:to] {
						keys = append(keys, model.Item{"pk": it["pk"], "sk": it["sk"]})
					}
					r := d.Apply(model.Op{Kind: "BatchGet", Batch: []model.TableBatch{{Table: "tbl", Keys: keys}}})
					var got []model.Item
					for _, tb := range r.Responses {
						got = append(got, tb.Keys...)
					}
					if r.Err != "" || !model.MultisetEqual(all[from:to], got) {
						return newFail("round trip changed the item", "%s BatchGetItem of %d stored keys: %d returned %s %s", d.Name(), to-from, len(got), r.Err, r.ErrText)
					}
				}
			}
		}
	}
	return nil
}

const ruleC10 = "rapid: items = S key + 1-6 attributes drawn from the full attribute-value generator (all ten types, nesting depth up to 6, forced boundary members: empty string, empty binary, empty list/map, false, NULL, single-element sets, numerals of every notation class incl. 40-digit trailing-zero forms, adjacent 19-36 digit numbers as values and as set members; a quarter of the cases with equal sub-values that share one pointer in the SDK v1 request), written with PutItem and read back through GetItem, Query, Scan (both SDK clients) and BatchGetItem (v2); one case in forty writes 26-400 further items full of short binaries to the same partition and reads everything back (GetItem, Query, BatchGetItem in chunks of up to 100 keys); half of the cases interpose an UpdateItem that sets an unrelated attribute so that every attribute passes through the expression interpreter's object mapping. Oracle: equality of names, types and values (sets as sets, numbers by numeric value). Non-trivial = the tree contains a boundary member or has depth >= 3; distinct = hash of the item."

// TestC10 decides property C10.
func TestC10(t *testing.T) {
	st := stats.For("C10")
	st.SetRule(ruleC10)
	rapid.Check(t, func(rt *rapid.T) {
		withUpdate := rapid.Bool().Draw(rt, "withUpdate")
		o := avOpts(rapid.IntRange(1, 6).Draw(rt, "depth"), false)
		if !withUpdate {
			// plain PutItem/GetItem never parses numbers: the whole numeral domain applies
			o.FloatExact = false
		}
		it := gen.Attrs(rt, o, 6, "attrs")
		it["pk"] = model.Str(gen.NonEmptyStr(false).Draw(rt, "pk"))
		it["sk"] = model.Str(gen.NonEmptyStr(false).Draw(rt, "sk"))
		delete(it, "zz9")
		c := c10Case{Item: it, WithUpdate: withUpdate}
		if rapid.IntRange(0, 3).Draw(rt, "share") == 0 {
			c.Share = true
			v := gen.AV(rt, o, "dupV")
			it["dupA"], it["dupB"] = v, v.Clone()
			e := gen.AV(rt, o, "dupE")
			it["duplist"] = model.List(e, e.Clone(), e.Clone())
		}
		if !withUpdate && rapid.IntRange(0, 3).Draw(rt, "bigNumbers") == 0 {
			// numbers that differ only beyond float64 precision, also as set members
			base := rapid.SampledFrom([]string{"1234567890123456789", "0.1234567890123456789", "9007199254740992", "123456789012345678901234567890123456"}).Draw(rt, "bigBase")
			d := model.MustDec(base)
			one := model.MustDec("1")
			if containsDotStr(base) {
				one = model.MustDec("0.0000000000000000001")
			}
			it["bigns"] = model.NumSet(base, d.Add(one).Plain(), d.Add(one).Add(one).Plain())
			it["bign"] = model.Num(d.Add(one).Plain())
			it["bigl"] = model.List(model.Num(base), model.Map(map[string]model.AV{"k": model.NumSet(base, d.Add(one).Plain())}))
		}
		if rapid.IntRange(0, 39).Draw(rt, "bulk") == 23 { // (rapid favours the ends of a range)
			c.Bulk = rapid.SampledFrom([]int{26, 120, 400}).Draw(rt, "bulkItems")
			st.Class("bulk-partition")
		}
		pending("C10", "c10", c)
		depth := 0
		for _, v := range it {
			if d := model.Depth(v); d > depth {
				depth = d
			}
		}
		bm := boundaryMembers(it)
		st.Case(len(bm) > 0 || depth >= 3, c)
		for _, b := range bm {
			st.Class("has-" + b)
		}
		if depth >= 3 {
			st.Class("depth>=3")
		}
		if withUpdate {
			st.Class("with-interposed-update")
		}
		if open("F-V2EMPTY") && hasEmptyLM(it) {
			st.Exclude("F-V2EMPTY")
		}
		if f := runC10(c); f != nil {
			failCase(rt, "C10", "c10", f, c)
		}
	})
}

func containsDotStr(s string) bool { return strings.Contains(s, ".") }

func init() {
	replayers["c10"] = func(raw json.RawMessage) *failure {
		var c c10Case
		if err := json.Unmarshal(raw, &c); err != nil {
			return newFail("bad replay file", "%v", err)
		}
		return runC10(c)
	}
}

// ---------------------------------------------------------------- C13

// collisionPool: key strings built from the separator characters the
// implementation uses when it renders keys.
var collisionPool = []string{"a", "b", "c", "a.b", "b.c", "a.b.c", "a.", ".a", ".", "..", "a|b", "[1 2]", "[1", "1", "1.0", "10", "9", " a", "a ", "%v", "%!v(MISSING)", "é", "a\x00b"}

const ruleC13 = "rapid state machine: hash-only and hash+range tables with S/N/B key types, created with CreateTable or the AddTable helper; keys drawn from a pool built from the implementation's own separator characters ('.', '|', '[', ' ', near collisions such as (\"a.b\",\"c\") vs (\"a\",\"b.c\"), prefixes, numerals) over Put / Get / Delete / UpdateItem, plus requests whose key lacks an attribute or has it with the wrong type (every operation) and updates that SET / REMOVE / ADD a key attribute; both SDK clients against a model keyed by the tuple of key values: distinct keys never overwrite each other, malformed keys give a validation error and change nothing, after every successful UpdateItem the stored key attributes equal the addressing key. One case in eight is a dense key space instead: every string (S and B parts) of length 1..2 or 1..3 over an alphabet of 2-3 characters drawn from separator, escape, control and ordinary characters (two thirds of them containing the implementation's own separator '.'), or 4-10 numbers that differ only far beyond float64 / six-decimal precision (N parts), as hash-only or as the full hash x range product (up to 1521 keys), each stored with its own payload on both clients, read back by GetItem and counted by Scan, then every third key deleted and all keys read again. Non-trivial = history with two distinct keys whose renderings share a prefix or contain a separator, or an update that targets a key attribute; distinct = hash of the operation list."

// TestC13 decides property C13.
func TestC13(t *testing.T) {
	st := stats.For("C13")
	st.SetRule(ruleC13)
	rapid.Check(t, func(rt *rapid.T) {
		if rapid.IntRange(0, 7).Draw(rt, "denseKeySpace") == 0 {
			propC13Dense(rt, st)
			return
		}
		w := newWorld("C13", worldCfg{V1: true, V2: true, WhiteBox: true, GetKeys: true})
		w.drawCheckPeriod(rt)
		s := drawSchema(rt, "tbl", schemaCfg{KeyTypes: []string{"S", "S", "S", "N", "B"}, MaxIndexes: 1})
		if rapid.IntRange(0, 5).Draw(rt, "viaAddTable") == 4 {
			// the AddTable helper (string keys only)
			s = model.Schema{Table: "tbl", Hash: "pk", Attrs: map[string]string{"pk": "S"}, Billing: "PAY_PER_REQUEST", ViaAddTable: true}
			if rapid.Bool().Draw(rt, "addTableRange") {
				s.Range = "sk"
				s.Attrs["sk"] = "S"
			}
		}
		o := avOpts(1, true)
		g := newTgen(rt, s, o, 1)
		// rebuild the key pool from the collision-prone values
		g.keys = nil
		seen := map[string]bool{}
		n := rapid.IntRange(3, 7).Draw(rt, "poolSize")
		// number keys that differ only beyond float64 precision (no expression
		// is evaluated on these tables: F-FLOAT is about the interpreter)
		bigNums := s.Attrs[s.Hash] == "N" || s.Range != "" && s.Attrs[s.Range] == "N"
		bigNums = bigNums && rapid.Bool().Draw(rt, "bigNumberKeys")
		bigPool := []string{"9007199254740993", "9007199254740992", "9007199254740994", "12345678901234567890123456789012345678", "12345678901234567890123456789012345679",
			"0.1234567890123456789", "0.1234567890123456788", "-9007199254740993", "100000000000000000000000000000000000001", "100000000000000000000000000000000000002"}
		drawPart := func(ty, label string) model.AV {
			if ty == "N" && bigNums {
				return model.Num(rapid.SampledFrom(bigPool).Draw(rt, label))
			}
			switch ty {
			case "S":
				return model.Str(rapid.SampledFrom(collisionPool).Draw(rt, label))
			case "B":
				return model.Bin([]byte(rapid.SampledFrom(collisionPool).Draw(rt, label)))
			}
			return drawKeyValue(rt, ty, o, label)
		}
		for i := 0; len(g.keys) < n && i < n*4; i++ {
			k := model.Item{s.Hash: drawPart(s.Attrs[s.Hash], "hashPart")}
			if s.Range != "" {
				k[s.Range] = drawPart(s.Attrs[s.Range], "rangePart")
			}
			if c := model.CanonItem(k); !seen[c] {
				seen[c] = true
				g.keys = append(g.keys, k)
			}
		}
		w.pool[s.Table] = g.keys
		special := false
		for i, a := range g.keys {
			ra := implKey(a, s.Hash, s.Range)
			if strings.ContainsAny(ra, ".|[ ") {
				special = true
			}
			for j, b := range g.keys {
				if i != j && strings.HasPrefix(implKey(b, s.Hash, s.Range), ra) {
					special = true
				}
			}
		}
		keyUpdate := false
		fail := func(f *failure) {
			if f != nil {
				failCase(rt, "C13", "history:C13", f, w.asCase())
			}
		}
		defer func() {
			st.Case(special && len(g.keys) >= 2 || keyUpdate, w.Ops)
			st.Step(w.steps)
			if special {
				st.Class("pool-with-separators-or-prefixes")
			}
			if keyUpdate {
				st.Class("update-targets-key-attribute")
			}
			if bigNums {
				st.Class("number-keys-beyond-float64-precision")
			}
			st.Class("hashtype-" + s.Attrs[s.Hash])
			if s.Range != "" {
				st.Class("rangetype-" + s.Attrs[s.Range])
			}
		}()
		_, _, f := w.do(model.Op{Kind: "CreateTable", Schema: &s})
		fail(f)
		badKey := func(rt *rapid.T) model.Item {
			k := g.key(rt)
			a := rapid.SampledFrom(s.KeyAttrs()).Draw(rt, "badAttr")
			if rapid.Bool().Draw(rt, "dropNotRetype") {
				delete(k, a)
			} else if s.Attrs[a] == "N" {
				k[a] = model.Str("7")
			} else {
				k[a] = model.Num("7")
			}
			return k
		}
		rt.Repeat(map[string]func(*rapid.T){
			"put": func(rt *rapid.T) {
				_, _, f := w.do(model.Op{Kind: "Put", Table: s.Table, Item: g.item(rt)})
				fail(f)
			},
			"get": func(rt *rapid.T) {
				_, _, f := w.do(model.Op{Kind: "Get", Table: s.Table, Key: g.key(rt)})
				fail(f)
			},
			"delete": func(rt *rapid.T) {
				_, _, f := w.do(model.Op{Kind: "Delete", Table: s.Table, Key: g.key(rt), ReturnOld: rapid.Bool().Draw(rt, "returnOld")})
				fail(f)
			},
			"update": func(rt *rapid.T) {
				if bigNums {
					rt.Skip("no expressions on tables with numbers beyond float64 precision")
				}
				_, _, f := w.do(normOp(g.updateOp(rt, w.m, 0)))
				fail(f)
			},
			"malformedKey": func(rt *rapid.T) {
				k := badKey(rt)
				var op model.Op
				maxKind := 3
				if bigNums {
					maxKind = 2
				}
				switch rapid.IntRange(0, maxKind).Draw(rt, "malformedOp") {
				case 0:
					it := g.item(rt)
					for _, a := range s.KeyAttrs() {
						delete(it, a)
					}
					for a, v := range k {
						it[a] = v
					}
					op = model.Op{Kind: "Put", Table: s.Table, Item: it}
				case 1:
					op = model.Op{Kind: "Get", Table: s.Table, Key: k}
				case 2:
					op = model.Op{Kind: "Delete", Table: s.Table, Key: k}
				default:
					op = model.Op{Kind: "Update", Table: s.Table, Key: k, Update: "SET extra = :x", Values: map[string]model.AV{":x": model.Str("y")}}
					// the malformed key is reported whatever the condition would say
					switch rapid.IntRange(0, 3).Draw(rt, "malformedCond") {
					case 1:
						op.Cond = "attribute_exists(nosuchattr)"
					case 2:
						op.Cond = "attribute_not_exists(nosuchattr)"
					}
				}
				res, status, f := w.do(op)
				fail(f)
				if status == stepDone && res.Err == model.ErrValidation {
					st.Class("malformed-key-rejected")
				}
			},
			"keyAttrUpdate": func(rt *rapid.T) {
				if bigNums {
					rt.Skip("no expressions on tables with numbers beyond float64 precision")
				}
				a := rapid.SampledFrom(s.KeyAttrs()).Draw(rt, "keyAttr")
				var upd string
				vals := map[string]model.AV{}
				switch rapid.IntRange(0, 2).Draw(rt, "keyUpdKind") {
				case 0:
					upd = "SET #k = :k"
					vals[":k"] = drawKeyValue(rt, s.Attrs[a], o, "newKeyVal")
				case 1:
					upd = "REMOVE #k"
				default:
					upd = "ADD #k :k"
					vals[":k"] = model.Num("1")
				}
				op := normOp(model.Op{Kind: "Update", Table: s.Table, Key: g.key(rt), Update: upd, Names: map[string]string{"#k": a}, Values: vals})
				_, status, f := w.do(op)
				fail(f)
				if status == stepDone {
					keyUpdate = true
				}
			},
			"": func(rt *rapid.T) { fail(w.maybeCheck()) },
		})
		fail(w.check())
	})
}

// ---------------------------------------------------------------- C15

// batchOp draws a BatchWriteItem over the table: puts and deletes of distinct
// pool keys.
func (g *tgen) batchOp(rt *rapid.T, max int) model.Op {
	n := rapid.IntRange(1, max).Draw(rt, "batchN")
	seen := map[string]bool{}
	tb := model.TableBatch{Table: g.s.Table}
	for i := 0; i < n; i++ {
		it := g.item(rt)
		k := model.Item{}
		for _, a := range g.s.KeyAttrs() {
			k[a] = it[a]
		}
		c := model.CanonItem(k)
		if seen[c] {
			continue
		}
		seen[c] = true
		if rapid.IntRange(0, 2).Draw(rt, "batchDel") == 0 {
			tb.Reqs = append(tb.Reqs, model.WriteReq{Delete: k})
		} else {
			tb.Reqs = append(tb.Reqs, model.WriteReq{Put: it})
		}
	}
	return model.Op{Kind: "BatchWrite", Batch: []model.TableBatch{tb}}
}

const ruleC15 = "rapid state machine: SetFailure(none | internal_server | deprecated, through EmulateFailure and through ActiveForceFailure / DeactiveForceFailure) interleaved with every data operation kind (Put, Update, Delete, Get, Query, Scan, BatchWrite with 1-16 requests over one to three tables or 13-25 requests for one table, BatchGet, TransactWrite) and with requests that are invalid on their own account (malformed keys, unknown table, bad placeholders, malformed expressions, ill-typed updates, index-key type mismatches) on tables with 0-2 indexes, the same abstract history on both SDK clients against the reference model: while a condition is active every data call returns exactly the configured error class and the complete internal snapshot is unchanged; BatchWrite under internal_server reports every request as unprocessed (none applied, none dropped) identically in both clients; after deactivation the full observable state - and the item-collection metrics configured through SetItemCollectionMetrics, which every BatchWrite response carries - equals the model that skipped the failed calls and later operations agree with it. Non-trivial = history with >= 2 toggles and a write attempted under failure followed by a read after recovery; distinct = hash of the operation list."

// TestC15 decides property C15.
func TestC15(t *testing.T) {
	st := stats.For("C15")
	st.SetRule(ruleC15)
	rapid.Check(t, func(rt *rapid.T) {
		w := newWorld("C15", worldCfg{V1: true, V2: true, WhiteBox: true, IndexReads: true})
		w.drawCheckPeriod(rt)
		s := drawSchema(rt, "tbl", schemaCfg{KeyTypes: []string{"S"}, MaxIndexes: 2})
		o := avOpts(2, true)
		g := newTgen(rt, s, o, rapid.IntRange(3, 6).Draw(rt, "poolSize"))
		g.maxAttrs = 2
		toggles, writesUnderFailure, readsAfter := 0, 0, 0
		fail := func(f *failure) {
			if f != nil {
				failCase(rt, "C15", "history:C15", f, w.asCase())
			}
		}
		defer func() {
			st.Case(toggles >= 2 && writesUnderFailure > 0 && readsAfter > 0, w.Ops)
			st.Step(w.steps)
		}()
		_, _, f := w.do(model.Op{Kind: "CreateTable", Schema: &s})
		fail(f)
		s2 := drawSchema(rt, "tbl2", schemaCfg{KeyTypes: []string{"S"}, MaxIndexes: 1})
		g2 := newTgen(rt, s2, o, 4)
		g2.maxAttrs = 2
		s3 := *sTable("tbl3", false)
		g3 := newTgen(rt, s3, o, 4)
		_, _, f = w.do(model.Op{Kind: "CreateTable", Schema: &s2})
		fail(f)
		_, _, f = w.do(model.Op{Kind: "CreateTable", Schema: &s3})
		fail(f)
		data := func(op model.Op, write bool) {
			res, status, f := w.do(op)
			fail(f)
			if status != stepDone {
				return
			}
			if w.m.Failure != "" {
				st.Class("under-" + w.m.Failure + "-" + op.Kind)
				if write {
					writesUnderFailure++
				}
				_ = res
			} else if !write && writesUnderFailure > 0 {
				readsAfter++
			}
		}
		rt.Repeat(map[string]func(*rapid.T){
			"toggle": func(rt *rapid.T) {
				op := model.Op{Kind: "SetFailure"}
				switch rapid.IntRange(0, 4).Draw(rt, "toggleKind") {
				case 0:
					op.Failure = "internal_server"
				case 1:
					op.Failure = "deprecated"
				case 2:
					op.Failure = "none"
				case 3:
					op.Via = "active"
				default:
					op.Via = "deactive"
				}
				_, _, f := w.do(op)
				fail(f)
				toggles++
			},
			"put":    func(rt *rapid.T) { data(model.Op{Kind: "Put", Table: s.Table, Item: g.item(rt)}, true) },
			"update": func(rt *rapid.T) { data(normOp(g.updateOp(rt, w.m, 0)), true) },
			"delete": func(rt *rapid.T) { data(model.Op{Kind: "Delete", Table: s.Table, Key: g.key(rt)}, true) },
			"get":    func(rt *rapid.T) { data(model.Op{Kind: "Get", Table: s.Table, Key: g.key(rt)}, false) },
			"read":   func(rt *rapid.T) { data(g.readOp(rt, w.m, 20), false) },
			"batchWrite": func(rt *rapid.T) {
				op := g.batchOp(rt, 8)
				if rapid.IntRange(0, 3).Draw(rt, "largeBatch") == 2 {
					// 13-25 requests for one table, distinct synthetic keys
					n := rapid.SampledFrom([]int{13, 16, 17, 18, 20, 24, 25}).Draw(rt, "largeBatchN")
					op.Batch[0].Reqs = nil
					a := g.s.KeyAttrs()[len(g.s.KeyAttrs())-1]
					for i := 0; i < n; i++ {
						it := g.item(rt)
						it[a] = model.Str(fmt.Sprintf("many-%02d", i))
						if rapid.IntRange(0, 4).Draw(rt, "largeDel") == 3 {
							op.Batch[0].Reqs = append(op.Batch[0].Reqs, model.WriteReq{Delete: w.m.Tables[g.s.Table].KeyItem(it)})
						} else {
							op.Batch[0].Reqs = append(op.Batch[0].Reqs, model.WriteReq{Put: it})
						}
					}
					st.Class("batch-of-13-25-requests-for-one-table")
					data(op, true)
					return
				}
				// most batches address several tables
				if rapid.IntRange(0, 3).Draw(rt, "multiTable") > 0 {
					op.Batch = append(op.Batch, g2.batchOp(rt, 4).Batch...)
					if rapid.Bool().Draw(rt, "threeTables") {
						op.Batch = append(op.Batch, g3.batchOp(rt, 4).Batch...)
					}
				}
				if len(op.Batch) > 1 {
					st.Class("batch-over-several-tables")
				}
				data(op, true)
			},
			"batchGet": func(rt *rapid.T) {
				n := rapid.IntRange(1, 4).Draw(rt, "bgN")
				tb := model.TableBatch{Table: s.Table}
				seen := map[string]bool{}
				for i := 0; i < n; i++ {
					k := g.key(rt)
					if c := model.CanonItem(k); !seen[c] {
						seen[c] = true
						tb.Keys = append(tb.Keys, k)
					}
				}
				data(model.Op{Kind: "BatchGet", Batch: []model.TableBatch{tb}}, false)
			},
			"transact": func(rt *rapid.T) { data(model.Op{Kind: "TransactWrite"}, true) },
			"setMetrics": func(rt *rapid.T) {
				// the SetItemCollectionMetrics helper: every later BatchWriteItem response
				// carries the configured metrics, whatever failed in between
				if w.m.MetricsSet || rapid.IntRange(0, 3).Draw(rt, "reallySetMetrics") != 2 {
					return
				}
				_, _, f := w.do(model.Op{Kind: "SetMetrics"})
				fail(f)
			},
			"invalidRequest": func(rt *rapid.T) {
				// requests that are rejected on their own account: while a failure
				// is active they too return the configured error
				op, class := g.failingOp(rt, w.m)
				if w.m.Failure == "" {
					return // without a failure these requests are C08's / C16's subject
				}
				st.Class("invalid-request-under-failure-" + class)
				data(op, op.Kind != "Get" && op.Kind != "Scan" && op.Kind != "Query")
			},
			"": func(rt *rapid.T) { fail(w.maybeCheck()) },
		})
		fail(w.check())
	})
}

var _ = fmt.Sprintf
var _ drv.Driver

package props

import (
	"fmt"
	"sort"
	"strings"

	"verifharness/gen"
	"verifharness/model"
)

// avOpts returns generator restrictions implied by the open known findings.
// With no open finding the whole value domain is generated.
func avOpts(depth int, usesV2 bool) gen.AVOpts {
	return gen.AVOpts{
		Depth:         depth,
		FloatExact:    open("F-FLOAT"),
		NoEmptyBin:    open("F-EMPTYBIN") || (usesV2 && open("F-V2EMPTYBIN")),
		NoEmptyLM:     usesV2 && open("F-V2EMPTY"),
		CanonNumerals: false,
	}
}

// implKeyRender mimics how the implementation renders a key attribute value
// into its internal key string (only used by guards of findings that are
// about exactly that rendering).
func implKeyRender(v model.AV) string {
	switch v.T {
	case "S", "N":
		return v.S
	case "B":
		return fmt.Sprintf("%v", v.B)
	}
	return "?"
}

func implKey(it model.Item, hash, rng string) string {
	if rng == "" {
		return implKeyRender(it[hash])
	}
	return implKeyRender(it[hash]) + "." + implKeyRender(it[rng])
}

// keyCollision reports whether two distinct stored keys of the table have the
// same internal rendering (F-KEYCOLLIDE), or differently written numerals of
// the same value occur in key position (F-NUMKEYTEXT).
func keyCollision(t *model.Table) bool {
	seen := map[string]string{}
	for ck, it := range t.Items {
		r := implKey(it, t.Schema.Hash, t.Schema.Range)
		if prev, ok := seen[r]; ok && prev != ck {
			return true
		}
		seen[r] = ck
	}
	return false
}

// numSortMismatch reports whether, in the view queried by op, the items that
// share the queried hash value have N or B sort keys whose text order differs
// from value order (F-NUMSORT).
func numSortMismatch(t *model.Table, index string) bool {
	hash, rng := t.Schema.Hash, t.Schema.Range
	if index != "" {
		ix := t.Schema.FindIndex(index)
		if ix == nil {
			return false
		}
		hash, rng = ix.Hash, ix.Range
	}
	if rng == "" {
		return false
	}
	ty := t.Schema.Attrs[rng]
	if ty != "N" && ty != "B" {
		return false
	}
	parts := map[string][]model.AV{}
	for _, it := range t.View(index) {
		h := model.Canon(it[hash])
		parts[h] = append(parts[h], it[rng])
	}
	// a stored number keeps the text it was written with until an UpdateItem
	// re-serialises the item (plain notation): both renderings are possible
	renderings := func(v model.AV) []string {
		out := []string{implKeyRender(v)}
		if v.T == "N" {
			if d, ok := model.ParseDec(v.S); ok && d.Plain() != v.S {
				out = append(out, d.Plain())
			}
		}
		return out
	}
	for _, vals := range parts {
		for i := range vals {
			for j := range vals {
				c, _ := model.CompareScalar(vals[i], vals[j])
				for _, ri := range renderings(vals[i]) {
					for _, rj := range renderings(vals[j]) {
						tc := strings.Compare(ri, rj)
						if (c < 0) != (tc < 0) || (c == 0) != (tc == 0) {
							return true
						}
					}
				}
			}
		}
	}
	return false
}

func tokensOf(exprs ...string) map[string]bool {
	out := map[string]bool{}
	for _, e := range exprs {
		for _, t := range model.TokenTexts(e) {
			out[t] = true
		}
	}
	return out
}

// placeholderGuards returns F-SUBSTR / F-UNDEFPH when the request's
// placeholder configuration is one that those findings mishandle.
func placeholderGuards(op model.Op) []string {
	var ids []string
	exprs := []string{op.Cond, op.Update, op.KeyCond, op.Filter, op.Projection}
	all := strings.Join(exprs, " ")
	toks := tokensOf(exprs...)
	for k := range op.Names {
		if !toks[k] && strings.Contains(all, k) {
			ids = append(ids, "F-SUBSTR")
		}
	}
	for k := range op.Values {
		if !toks[k] && strings.Contains(all, k) {
			ids = append(ids, "F-SUBSTR")
		}
	}
	for tk := range toks {
		if strings.HasPrefix(tk, "#") {
			if _, ok := op.Names[tk]; !ok {
				ids = append(ids, "F-UNDEFPH")
			}
		}
		if strings.HasPrefix(tk, ":") {
			if _, ok := op.Values[tk]; !ok {
				ids = append(ids, "F-UNDEFPH")
			}
		}
	}
	return ids
}

// exprPaths collects every document path of the request's expressions.
func exprPaths(op model.Op) (paths []model.Path, upd *model.Update) {
	add := func(e model.Expr) {
		model.WalkExpr(e, func(x model.Expr) {
			if p, ok := x.(model.Path); ok {
				paths = append(paths, p)
			}
		})
	}
	for _, s := range []string{op.Cond, op.KeyCond, op.Filter} {
		if s == "" {
			continue
		}
		if e, err := model.ParseCondition(s); err == nil {
			add(e)
		}
	}
	if op.Update != "" {
		if u, err := model.ParseUpdate(op.Update); err == nil {
			upd = &u
			model.WalkUpdate(u, func(x model.Expr) {
				if p, ok := x.(model.Path); ok {
					paths = append(paths, p)
				}
			})
		}
	}
	return
}

// guardOp returns the ids of the open known findings whose trigger predicate
// the operation satisfies in the current model state. Such a step is skipped
// (and counted), so that the search continues behind known defects.
func guardOp(op model.Op, db *model.DB, usesV2 bool) []string {
	if guardsOff {
		return nil
	}
	set := map[string]bool{}
	add := func(id string) {
		if open(id) {
			set[id] = true
		}
	}
	for _, id := range placeholderGuards(op) {
		add(id)
	}
	for _, v := range op.Names {
		if strings.Contains(v, ".") {
			add("F-ALIASDOT")
		}
		// F-PHCOLLIDE: an alias addresses an attribute named like a placeholder key of the request
		if _, ok := op.Values[v]; ok {
			add("F-PHCOLLIDE")
		}
		if _, ok := op.Names[v]; ok {
			add("F-PHCOLLIDE")
		}
	}
	t := db.Tables[op.Table]
	paths, upd := exprPaths(op)
	env := model.Env{Names: op.Names, Values: op.Values}
	// F-RESNESTED: reserved word as a non-first path element
	for _, p := range paths {
		for i, el := range p.Elems {
			if i > 0 && !el.IsIndex && !strings.HasPrefix(el.Name, "#") && model.IsReserved(el.Name) {
				add("F-RESNESTED")
			}
		}
	}
	if t != nil {
		// items the expressions will be evaluated on
		var scope []model.Item
		switch op.Kind {
		case "Put":
			if k, ok := t.KeyOf(op.Item); ok {
				scope = append(scope, t.Items[k])
			}
		case "Update", "Delete":
			if k, ok := t.KeyOf(op.Key); ok {
				if it, ok := t.Items[k]; ok {
					scope = append(scope, it)
				} else if op.Kind == "Update" {
					scope = append(scope, t.KeyItem(op.Key))
				}
			}
		case "Query", "Scan":
			scope = t.View(op.Index)
		}
		// F-PATHTYPE: .name applied to a non-map or [i] to a non-list
		if open("F-PATHTYPE") {
			for _, p := range paths {
				for _, it := range scope {
					if model.PathWrongKind(p, it, env) {
						add("F-PATHTYPE")
					}
				}
			}
		}
		if op.Kind == "Query" && op.KeyCond != "" {
			hash, rng := t.Schema.Hash, t.Schema.Range
			if ix := t.Schema.FindIndex(op.Index); ix != nil {
				hash, rng = ix.Hash, ix.Range
			}
			if e, err := model.ParseCondition(op.KeyCond); err == nil {
				if model.KeyCondShape(e, env, hash, rng) != "" {
					add("F-KEYCONDSHAPE")
				}
			}
			if open("F-NUMSORT") && numSortMismatch(t, op.Index) {
				add("F-NUMSORT")
			}
		}
		if upd != nil {
			var base model.Item
			if len(scope) > 0 {
				base = scope[0]
			}
			for _, id := range model.UpdateGuards(*upd, base, env, t.Schema.KeyAttrs()) {
				add(id)
			}
		}
		// F-V2EMPTY: an empty list or map written, or produced by this update
		if usesV2 && open("F-V2EMPTY") && (op.Kind == "Put" || op.Kind == "Update" || op.Kind == "BatchWrite") {
			next := db.Clone()
			next.Apply(op)
			for _, tn := range next.TableNames() {
				for _, it := range next.Tables[tn].Items {
					if hasEmptyLM(it) {
						add("F-V2EMPTY")
					}
				}
			}
		}
		// F-KEYCOLLIDE / F-NUMKEYTEXT: would this write make two distinct keys
		// share one internal rendering?
		if open("F-KEYCOLLIDE") || open("F-NUMKEYTEXT") {
			switch op.Kind {
			case "Put", "Update", "BatchWrite", "Get", "Delete":
				next := db.Clone()
				res := next.Apply(op)
				_ = res
				for _, tn := range next.TableNames() {
					if keyCollision(next.Tables[tn]) {
						add("F-KEYCOLLIDE")
						add("F-NUMKEYTEXT")
					}
				}
				// addressing a key whose rendering equals that of a different stored key
				var key model.Item
				if op.Kind == "Get" || op.Kind == "Delete" || op.Kind == "Update" {
					key = op.Key
				}
				if op.Kind == "Put" && op.Item != nil {
					// (a put addresses a key too: its condition is evaluated on what is stored there,
					// also when the model refuses the put and nothing new gets stored)
					key = t.KeyItem(op.Item)
				}
				if key != nil {
					if ck, ok := t.KeyOf(key); ok {
						r := implKey(key, t.Schema.Hash, t.Schema.Range)
						for sk, it := range t.Items {
							if sk != ck && implKey(it, t.Schema.Hash, t.Schema.Range) == r {
								add("F-KEYCOLLIDE")
								add("F-NUMKEYTEXT")
							}
						}
					}
				}
			}
		}
	}
	if op.Kind == "BatchGet" && (open("F-KEYCOLLIDE") || open("F-NUMKEYTEXT")) {
		for _, tb := range op.Batch {
			bt := db.Tables[tb.Table]
			if bt == nil {
				continue
			}
			seen := map[string]string{}
			for ck, it := range bt.Items {
				seen[implKey(it, bt.Schema.Hash, bt.Schema.Range)] = ck
			}
			for _, k := range tb.Keys {
				ck, ok := bt.KeyOf(k)
				if !ok {
					continue
				}
				rk := implKey(k, bt.Schema.Hash, bt.Schema.Range)
				if prev, dup := seen[rk]; dup && prev != ck {
					add("F-KEYCOLLIDE")
					add("F-NUMKEYTEXT")
				}
				seen[rk] = ck
			}
		}
	}
	if op.Kind == "BatchWrite" && (open("F-KEYCOLLIDE") || open("F-NUMKEYTEXT")) {
		for _, tb := range op.Batch {
			bt := db.Tables[tb.Table]
			if bt == nil {
				continue
			}
			seen := map[string]string{}
			for ck, it := range bt.Items {
				seen[implKey(it, bt.Schema.Hash, bt.Schema.Range)] = ck
			}
			for _, r := range tb.Reqs {
				k := r.Put
				if k == nil {
					k = r.Delete
				}
				ck, ok := bt.KeyOf(k)
				if !ok {
					continue
				}
				rk := implKey(k, bt.Schema.Hash, bt.Schema.Range)
				if prev, dup := seen[rk]; dup && prev != ck {
					add("F-KEYCOLLIDE")
					add("F-NUMKEYTEXT")
				}
				seen[rk] = ck
			}
		}
	}
	// precondition every real caller keeps (DynamoDB rejects it for reasons no
	// listed property covers): no item holds an empty string or binary in an
	// attribute that is a key of some index
	switch op.Kind {
	case "Put", "Update", "BatchWrite", "AddIndex":
		next := db.Clone()
		next.Apply(op)
		for _, tn := range next.TableNames() {
			nt := next.Tables[tn]
			for _, ix := range nt.Schema.Indexes {
				for _, a := range []string{ix.Hash, ix.Range} {
					for _, it := range nt.Items {
						if v, ok := it[a]; ok && a != "" && (v.T == "S" && v.S == "" || v.T == "B" && len(v.B) == 0) {
							set["PRE-EMPTY-INDEX-KEY"] = true
						}
					}
				}
			}
		}
	}
	ids := make([]string, 0, len(set))
	for id := range set {
		ids = append(ids, id)
	}
	sort.Strings(ids)
	return ids
}

func hasEmptyLM(it model.Item) bool {
	found := false
	model.WalkItem(it, func(a model.AV) {
		if a.T == "L" && len(a.L) == 0 || a.T == "M" && len(a.M) == 0 {
			found = true
		}
	})
	return found
}

package props

import (
	"encoding/json"
	"fmt"
	"os"
	"path/filepath"
	"sort"
	"strings"
	"testing"

	"pgregory.net/rapid"

	"verifharness/drv"
	"verifharness/model"
	"verifharness/stats"
)

func TestMain(m *testing.M) {
	loadKnown()
	code := m.Run()
	stats.FlushAll()
	os.Exit(code)
}

// ---------------------------------------------------------------- known findings

type finding struct {
	ID         string   `json:"id"`
	Properties []string `json:"properties"`
	Status     string   `json:"status"` // open | fixed
	What       string   `json:"what"`
	Repro      string   `json:"repro,omitempty"`
	Commit     string   `json:"commit,omitempty"`
	Line       string   `json:"line,omitempty"`
}

var (
	knownAll  []finding
	knownOpen = map[string]bool{}
	// guardsOff disables every guard (used when replaying a recorded case)
	guardsOff bool
)

func verifRoot() string {
	if r := os.Getenv("VERIF_ROOT"); r != "" {
		return r
	}
	return "/verif"
}

func loadKnown() {
	b, err := os.ReadFile(filepath.Join(verifRoot(), "known_findings.json"))
	if err != nil {
		return
	}
	var f struct {
		Findings []finding `json:"findings"`
	}
	if json.Unmarshal(b, &f) != nil {
		return
	}
	knownAll = f.Findings
	for _, k := range knownAll {
		if k.Status == "open" {
			knownOpen[k.ID] = true
		}
	}
}

// open reports whether the guard of a known finding is active.
func open(id string) bool { return !guardsOff && knownOpen[id] }

// ---------------------------------------------------------------- failing and replay files

type replayFile struct {
	Property string          `json:"property"`
	Kind     string          `json:"kind"`
	Class    string          `json:"class"`
	Detail   string          `json:"detail"`
	Case     json.RawMessage `json:"case"`
	// Guards: replay with the guards of open findings active (for regression
	// cases that necessarily lie inside the guard of another, open finding)
	Guards bool `json:"guards,omitempty"`
}

func replayOutPath(prop string) string {
	if p := os.Getenv("VERIF_REPLAY_OUT"); p != "" {
		return p
	}
	return filepath.Join(verifRoot(), "replays", prop+".json")
}

func writeReplay(prop, kind, class, detail string, c interface{}) {
	raw, err := json.Marshal(c)
	if err != nil {
		raw = []byte(`"unserialisable"`)
	}
	b, _ := json.MarshalIndent(replayFile{Property: prop, Kind: kind, Class: class, Detail: detail, Case: raw}, "", " ")
	p := replayOutPath(prop)
	os.MkdirAll(filepath.Dir(p), 0o755)
	os.WriteFile(p, b, 0o644)
}

// pendingMode makes every runner record the case it is about to execute, so
// that a crash of the whole process (stack overflow, fatal error) leaves the
// crashing case behind as the replay file. The check driver re-runs a shard
// that died with the same seed in this mode.
var pendingMode = os.Getenv("VERIF_PENDING") != ""

func pending(prop, kind string, c interface{}) {
	if pendingMode {
		writeReplay(prop, kind, "process crash", "the process died while executing the last step of this case", c)
	}
}

// failure describes a property violation found by a runner.
type failure struct {
	Class  string // fixed text, identical for every instance of this kind of failure
	Detail string
}

func (f *failure) Error() string { return f.Class + ": " + f.Detail }

func newFail(class, format string, a ...interface{}) *failure {
	return &failure{Class: class, Detail: fmt.Sprintf(format, a...)}
}

// failCase records the failing case as a replay file and fails the rapid
// property through one fixed message per class (rapid only accepts a shrink
// step when the message is identical).
func failCase(rt *rapid.T, prop, kind string, f *failure, c interface{}) {
	stats.For(prop).Violation()
	writeReplay(prop, kind, f.Class, f.Detail, c)
	rt.Logf("%s detail: %s", prop, f.Detail)
	rt.Fatalf("%s: %s", prop, f.Class)
}

// replayers maps a replay kind to the function that re-executes a case
// without rapid. It returns nil if the case passes.
var replayers = map[string]func(raw json.RawMessage) *failure{}

func runReplayFile(path string) (*replayFile, *failure, error) {
	b, err := os.ReadFile(path)
	if err != nil {
		return nil, nil, err
	}
	var rf replayFile
	if err := json.Unmarshal(b, &rf); err != nil {
		return nil, nil, err
	}
	fn, ok := replayers[rf.Kind]
	if !ok {
		return &rf, nil, fmt.Errorf("no replayer for kind %q", rf.Kind)
	}
	old := guardsOff
	guardsOff = !rf.Guards
	defer func() { guardsOff = old }()
	return &rf, fn(rf.Case), nil
}

// TestReplay re-executes the case in VERIF_REPLAY_FILE.
func TestReplay(t *testing.T) {
	p := os.Getenv("VERIF_REPLAY_FILE")
	if p == "" {
		t.Skip("VERIF_REPLAY_FILE not set")
	}
	rf, f, err := runReplayFile(p)
	if err != nil {
		t.Fatalf("replay error: %v", err)
	}
	if f != nil {
		fmt.Printf("REPLAY-FAIL property=%s class=%q detail=%s\n", rf.Property, f.Class, f.Detail)
		t.Fatalf("%s: %s", rf.Property, f.Class)
	}
	fmt.Printf("REPLAY-PASS property=%s\n", rf.Property)
}

// TestKnown replays the repro of every open finding of VERIF_PROPERTY and
// prints a KNOWN-FINDING line for each that still fails.
func TestKnown(t *testing.T) {
	prop := os.Getenv("VERIF_PROPERTY")
	for _, k := range knownAll {
		if k.Status != "open" {
			continue
		}
		mine := false
		for _, p := range k.Properties {
			if p == prop {
				mine = true
			}
		}
		// findings whose guard excluded cases in this run are reported too
		for _, id := range strings.Split(os.Getenv("VERIF_KNOWN_IDS"), ",") {
			if id == k.ID {
				mine = true
			}
		}
		if only := os.Getenv("VERIF_KNOWN_ONLY"); only != "" {
			mine = false
			for _, id := range strings.Split(only, ",") {
				if id == k.ID {
					mine = true
				}
			}
		}
		if !mine {
			continue
		}
		path := filepath.Join(verifRoot(), k.Repro)
		// a finding may carry one repro per property: known/<id>.<prop>.json
		if alt := strings.TrimSuffix(path, ".json") + "." + prop + ".json"; fileExists(alt) {
			path = alt
		}
		_, f, err := runReplayFile(path)
		switch {
		case err != nil:
			fmt.Printf("KNOWN-REPRO-ERROR finding=%s %v\n", k.ID, err)
			t.Errorf("repro of %s cannot run: %v", k.ID, err)
		case f != nil:
			fmt.Printf("KNOWN-FINDING: property=%s %s: %s\n", prop, k.ID, k.What)
		default:
			fmt.Printf("KNOWN-GONE finding=%s no longer reproduces\n", k.ID)
		}
	}
}

func fileExists(p string) bool {
	_, err := os.Stat(p)
	return err == nil
}

// ---------------------------------------------------------------- result comparison

func errAcceptable(want model.Result, got string) bool {
	if want.Err == "" {
		return got == ""
	}
	if got == model.ErrRuntimePanic {
		return false
	}
	if want.ExprErr && model.IsExprErrClass(got) {
		return true
	}
	if got == want.Err {
		return true
	}
	for _, a := range want.ErrAlt {
		if got == a {
			return true
		}
	}
	return false
}

func batchCanon(b []model.TableBatch) []string {
	var out []string
	for _, tb := range b {
		for _, r := range tb.Reqs {
			if r.Put != nil {
				out = append(out, tb.Table+" put "+model.CanonItem(r.Put))
			}
			if r.Delete != nil {
				out = append(out, tb.Table+" del "+model.CanonItem(r.Delete))
			}
		}
		for _, k := range tb.Keys {
			out = append(out, tb.Table+" item "+model.CanonItem(k))
		}
	}
	sort.Strings(out)
	return out
}

func sameStrings(a, b []string) bool {
	if len(a) != len(b) {
		return false
	}
	for i := range a {
		if a[i] != b[i] {
			return false
		}
	}
	return true
}

// orderValid checks that items are sorted by attr in the given direction
// (ties free).
func orderValid(items []model.Item, attr string, desc bool) bool {
	for i := 1; i < len(items); i++ {
		c, ok := model.CompareScalar(items[i-1][attr], items[i][attr])
		if !ok {
			return false
		}
		if !desc && c > 0 || desc && c < 0 {
			return false
		}
	}
	return true
}

func descString(d *model.Desc) string {
	if d == nil {
		return "<nil>"
	}
	b, _ := json.Marshal(d)
	return string(b)
}

// compareDesc compares table descriptions; per-index counts only where the
// client reports them.
func compareDesc(want, got *model.Desc) string {
	if want == nil {
		return ""
	}
	if got == nil {
		return "no table description returned"
	}
	if want.Table != got.Table || want.Count != got.Count || want.Hash != got.Hash || want.Range != got.Range {
		return fmt.Sprintf("description differs: want %s got %s", descString(want), descString(got))
	}
	if len(want.Indexes) != len(got.Indexes) {
		return fmt.Sprintf("index set differs: want %s got %s", descString(want), descString(got))
	}
	for i := range want.Indexes {
		w, g := want.Indexes[i], got.Indexes[i]
		if w.Name != g.Name || w.Global != g.Global || w.Hash != g.Hash || w.Range != g.Range {
			return fmt.Sprintf("index description differs: want %s got %s", descString(want), descString(got))
		}
		if g.HasCount && w.Count != g.Count {
			return fmt.Sprintf("index %s item count: want %d got %d", w.Name, w.Count, g.Count)
		}
	}
	return ""
}

// compareResult checks the implementation's result against the model's.
func compareResult(op model.Op, want, got model.Result, drvName string) *failure {
	if got.Err == model.ErrRuntimePanic {
		return newFail("runtime panic", "%s %s: %s", drvName, op.Kind, got.ErrText)
	}
	if !errAcceptable(want, got.Err) {
		return newFail("error class differs", "%s %s: want err=%q (expr=%v alt=%v %s) got err=%q (%s)", drvName, op.Kind, want.Err, want.ExprErr, want.ErrAlt, want.ErrText, got.Err, got.ErrText)
	}
	if want.Err != "" {
		if want.Err == model.ErrCondFailed && op.ReturnOnCondFail && drvName == "v2" && op.Kind == "Update" {
			if !model.ItemEqual(want.CondItem, got.CondItem) {
				return newFail("condition-failure item differs", "%s: want %s got %s", drvName, model.CanonItem(want.CondItem), model.CanonItem(got.CondItem))
			}
		} else if len(got.CondItem) > 0 {
			// (the drivers ask for the item only on v2 UpdateItem with ReturnOnCondFail)
			return newFail("failure carries an item that was not requested", "%s %s: %s", drvName, op.Kind, model.CanonItem(got.CondItem))
		}
		return nil
	}
	if op.ReturnValues != "" && op.Kind != "Get" {
		// what a response carries under an explicit ReturnValues parameter is not
		// decided (the library implements Delete ALL_OLD and always returns the new
		// item from UpdateItem); the state comparison after the step is
		return nil
	}
	switch op.Kind {
	case "Get", "Update":
		if !model.ItemEqual(want.Item, got.Item) {
			return newFail("returned item differs", "%s %s: want %s got %s", drvName, op.Kind, model.CanonItem(want.Item), model.CanonItem(got.Item))
		}
	case "Delete":
		if op.ReturnOld && !model.ItemEqual(want.Item, got.Item) {
			return newFail("returned item differs", "%s Delete ALL_OLD: want %s got %s", drvName, model.CanonItem(want.Item), model.CanonItem(got.Item))
		}
	case "Query", "Scan":
		if !model.MultisetEqual(want.Items, got.Items) {
			return newFail("read result differs", "%s %s index=%q: want %v got %v", drvName, op.Kind, op.Index, model.CanonItems(want.Items), model.CanonItems(got.Items))
		}
		if got.Count != len(got.Items) {
			return newFail("count differs from items", "%s %s: count %d items %d", drvName, op.Kind, got.Count, len(got.Items))
		}
		if want.OrderBy != "" && !orderValid(got.Items, want.OrderBy, want.OrderDesc) {
			return newFail("result order invalid", "%s %s by %s desc=%v: %v", drvName, op.Kind, want.OrderBy, want.OrderDesc, itemsInOrder(got.Items))
		}
	case "CreateTable":
		if op.Schema != nil && op.Schema.ViaAddTable {
			return nil
		}
		if s := compareDesc(want.Desc, got.Desc); s != "" {
			return newFail("table description differs", "%s %s: %s", drvName, op.Kind, s)
		}
	case "AddIndex":
		if op.IndexSchema != nil && op.IndexSchema.ViaHelper {
			return nil
		}
		if s := compareDesc(want.Desc, got.Desc); s != "" {
			return newFail("table description differs", "%s %s: %s", drvName, op.Kind, s)
		}
	case "DescribeTable", "DeleteTable", "DeleteIndex":
		if s := compareDesc(want.Desc, got.Desc); s != "" {
			return newFail("table description differs", "%s %s: %s", drvName, op.Kind, s)
		}
	case "BatchWrite":
		if !sameStrings(batchCanon(want.Unprocessed), batchCanon(got.Unprocessed)) {
			return newFail("unprocessed items differ", "%s: want %v got %v", drvName, batchCanon(want.Unprocessed), batchCanon(got.Unprocessed))
		}
		if want.Metrics != got.Metrics {
			return newFail("configured item-collection metrics differ", "%s BatchWrite: want %q got %q", drvName, want.Metrics, got.Metrics)
		}
	case "BatchGet":
		if !sameStrings(batchCanon(want.Responses), batchCanon(got.Responses)) {
			return newFail("batch get responses differ", "%s: want %v got %v", drvName, batchCanon(want.Responses), batchCanon(got.Responses))
		}
		if !open("F-BGUNPROC") && len(got.UnprocessedKeys) != 0 {
			return newFail("absent keys reported as unprocessed", "%s: %v", drvName, batchCanon(got.UnprocessedKeys))
		}
	}
	return nil
}

func itemsInOrder(items []model.Item) []string {
	out := make([]string, len(items))
	for i, it := range items {
		out[i] = model.CanonItem(it)
	}
	return out
}

// ---------------------------------------------------------------- world: model + drivers in lock step

// worldCfg selects drivers and the strength of per-step checks.
type worldCfg struct {
	V1, V2     bool
	NoModel    bool // differential only (C17)
	WhiteBox   bool
	IndexReads bool // invariant reads through every index
	Speculate  bool // execute requests whose rejection is not demanded by a property (C08)
	// ErrorsSpeculative: a request the model expects to fail is only required
	// to leave no trace if the implementation rejects it (C08 does not decide
	// whether it must be rejected)
	ErrorsSpeculative bool
	GetKeys           bool // invariant GetItem of every pool key
	// KeyMutSpeculative: updates that target a key attribute (open finding
	// F-KEYMUT) are sent speculatively instead of being skipped (C08)
	KeyMutSpeculative bool
}

type world struct {
	// checkEvery > 1: the full-state comparison runs only after every n-th
	// step (a defect may hide from an observer that reads after every step)
	checkEvery int
	sinceCheck int
	cfg        worldCfg
	m          *model.DB
	ds         []drv.Real
	Ops        []model.Op
	pool       map[string][]model.Item // table -> keys of interest
	prop       string
	steps      int64
	diverged   bool // a speculative request was accepted; only blind steps from here on
}

func newWorld(prop string, cfg worldCfg) *world {
	w := &world{cfg: cfg, m: model.NewDB(), pool: map[string][]model.Item{}, prop: prop}
	if cfg.V1 {
		w.ds = append(w.ds, drv.NewV1())
	}
	if cfg.V2 {
		w.ds = append(w.ds, drv.NewV2())
	}
	return w
}

// status of a step
const (
	stepDone = iota
	stepWeak
	stepGuarded
	stepRejected // speculative request rejected by the implementation, state verified unchanged
	stepDiverged // speculative request accepted by the implementation: the case cannot be followed further
)

// do applies one operation to the model and to every driver and compares.
// The returned result is the model's.
func (w *world) do(op model.Op) (model.Result, int, *failure) {
	if op.Blind {
		return w.doBlind(op)
	}
	if w.diverged {
		// the implementation accepted a request DynamoDB rejects: the model
		// cannot follow this world any further
		return model.Result{}, stepGuarded, nil
	}
	// keyMut: the only open finding the request touches is F-KEYMUT (an update
	// that targets a key attribute, which DynamoDB rejects and the library
	// accepts). Where the world speculates (C08) the request is sent all the
	// same: whatever the implementation answers, a refusal must leave no trace.
	keyMut := false
	if ids := guardOp(op, w.m, w.cfg.V2); len(ids) > 0 {
		if w.cfg.Speculate && w.cfg.KeyMutSpeculative && len(ids) == 1 && ids[0] == "F-KEYMUT" {
			keyMut = true
			stats.For(w.prop).Class("key-mutating-update-sent-speculatively")
		} else {
			for _, id := range ids {
				stats.For(w.prop).Exclude(id)
			}
			return model.Result{}, stepGuarded, nil
		}
	}
	next := w.m.Clone()
	want := next.Apply(op)
	if !keyMut && (want.Weak || want.Spec && !w.cfg.Speculate && !op.TrySpec) {
		stats.For(w.prop).WeakCase()
		return want, stepWeak, nil
	}
	if keyMut || want.Spec || w.cfg.ErrorsSpeculative && want.Err != "" {
		// DynamoDB rejects this request for a reason no listed property
		// demands. What the properties do demand (C08): if the implementation
		// rejects it, nothing changes.
		w.Ops = append(w.Ops, op)
		w.steps++
		accepted := false
		for _, d := range w.ds {
			before := d.Snapshot()
			got := d.Apply(op)
			if got.Err == model.ErrRuntimePanic {
				return want, stepDone, newFail("runtime panic", "%s %s: %s", d.Name(), op.Kind, got.ErrText)
			}
			if got.Err == "" {
				accepted = true
				continue
			}
			if after := d.Snapshot(); after != before {
				return want, stepDone, newFail("failing request changed state", "%s %s (err %s, %s):\n--- before\n%s--- after\n%s", d.Name(), op.Kind, got.Err, want.WeakWhy, before, after)
			}
		}
		if accepted {
			stats.For(w.prop).Class("speculative-request-accepted")
			w.diverged = true
			return want, stepDiverged, nil
		}
		stats.For(w.prop).Class("speculative-request-rejected")
		return want, stepRejected, nil
	}
	w.Ops = append(w.Ops, op)
	w.steps++
	if pendingMode {
		pending(w.prop, "history:"+w.prop, w.asCase())
	}
	for _, d := range w.ds {
		if op.Kind == "BatchGet" && d.Name() == "v1" {
			continue // not implemented by the v1 client
		}
		var before string
		if want.Err != "" {
			before = d.Snapshot()
		}
		got := d.Apply(op)
		if f := compareResult(op, want, got, d.Name()); f != nil {
			return want, stepDone, f
		}
		if want.Err != "" && isDataOp(op.Kind) {
			if after := d.Snapshot(); after != before {
				return want, stepDone, newFail("failing request changed state", "%s %s (err %s):\n--- before\n%s--- after\n%s", d.Name(), op.Kind, got.Err, before, after)
			}
		}
	}
	w.m = next
	return want, stepDone, nil
}

// doBlind sends a request to every driver without consulting the reference
// model. What is still decided: no runtime panic, and (C08) a data request
// that fails leaves the complete internal snapshot unchanged. The result of
// the first driver is returned.
func (w *world) doBlind(op model.Op) (model.Result, int, *failure) {
	w.Ops = append(w.Ops, op)
	w.steps++
	if pendingMode {
		pending(w.prop, "history:"+w.prop, w.asCase())
	}
	var first model.Result
	status := stepDone
	for i, d := range w.ds {
		if op.Kind == "BatchGet" && d.Name() == "v1" {
			continue
		}
		before := d.Snapshot()
		got := d.Apply(op)
		if i == 0 {
			first = got
		}
		if got.Err == model.ErrRuntimePanic {
			return got, stepDone, newFail("runtime panic", "%s %s: %s", d.Name(), op.Kind, got.ErrText)
		}
		if got.Err != "" && isDataOp(op.Kind) {
			status = stepRejected
			if after := d.Snapshot(); after != before {
				return got, stepDone, newFail("failing request changed state", "%s %s (err %s; state not followed by the reference model):\n--- before\n%s--- after\n%s", d.Name(), op.Kind, got.Err, before, after)
			}
		}
	}
	stats.For(w.prop).Class("blind-step")
	return first, status, nil
}

// maybeCheck runs check() according to the world's check period.
func (w *world) maybeCheck() *failure {
	w.sinceCheck++
	if w.checkEvery > 1 && w.sinceCheck < w.checkEvery {
		return nil
	}
	w.sinceCheck = 0
	return w.check()
}

// drawCheckPeriod draws how often the full-state comparison runs.
func (w *world) drawCheckPeriod(rt *rapid.T) {
	w.checkEvery = rapid.SampledFrom([]int{1, 1, 1, 2, 3, 5, 8}).Draw(rt, "checkEvery")
}

// check compares the full observable state of every driver with the model.
func (w *world) check() *failure {
	if w.diverged {
		return nil
	}
	for _, d := range w.ds {
		names := d.TableNames()
		if !sameStrings(names, w.m.TableNames()) {
			return newFail("table catalogue differs", "%s: want %v got %v", d.Name(), w.m.TableNames(), names)
		}
		for _, tn := range w.m.TableNames() {
			mt := w.m.Tables[tn]
			if w.cfg.WhiteBox {
				if f := w.whitebox(d, tn, mt); f != nil {
					return f
				}
			}
			if w.m.Failure != "" {
				continue // reads fail while a failure is emulated
			}
			got := d.Apply(model.Op{Kind: "Scan", Table: tn})
			if got.Err != "" {
				return newFail("invariant scan failed", "%s table %s: %s %s", d.Name(), tn, got.Err, got.ErrText)
			}
			want := mt.View("")
			if !model.MultisetEqual(want, got.Items) {
				return newFail("table scan differs from model", "%s table %s: want %v got %v", d.Name(), tn, model.CanonItems(want), model.CanonItems(got.Items))
			}
			if got.Count != len(got.Items) {
				return newFail("count differs from items", "%s scan %s: count %d items %d", d.Name(), tn, got.Count, len(got.Items))
			}
			desc := d.Apply(model.Op{Kind: "DescribeTable", Table: tn})
			if desc.Err != "" {
				return newFail("invariant describe failed", "%s table %s: %s", d.Name(), tn, desc.Err)
			}
			if s := compareDesc(w.m.Clone().Apply(model.Op{Kind: "DescribeTable", Table: tn}).Desc, desc.Desc); s != "" {
				return newFail("table description differs", "%s table %s: %s", d.Name(), tn, s)
			}
			if w.cfg.IndexReads {
				for _, ix := range mt.Schema.Indexes {
					gi := d.Apply(model.Op{Kind: "Scan", Table: tn, Index: ix.Name})
					if gi.Err != "" {
						return newFail("invariant index scan failed", "%s table %s index %s: %s %s", d.Name(), tn, ix.Name, gi.Err, gi.ErrText)
					}
					wi := mt.View(ix.Name)
					if !model.MultisetEqual(wi, gi.Items) {
						return newFail("index scan differs from model", "%s table %s index %s: want %v got %v", d.Name(), tn, ix.Name, model.CanonItems(wi), model.CanonItems(gi.Items))
					}
				}
			}
			if w.cfg.IndexReads {
				if f := w.indexQueries(d, tn, mt); f != nil {
					return f
				}
			}
			if w.cfg.GetKeys {
				for _, k := range w.pool[tn] {
					ck, ok := mt.KeyOf(k)
					if !ok {
						continue
					}
					if len(guardOp(model.Op{Kind: "Get", Table: tn, Key: k}, w.m, w.cfg.V2)) > 0 {
						continue
					}
					g := d.Apply(model.Op{Kind: "Get", Table: tn, Key: k})
					if g.Err != "" {
						return newFail("invariant get failed", "%s table %s key %s: %s", d.Name(), tn, model.CanonItem(k), g.Err)
					}
					if !model.ItemEqual(mt.Items[ck], g.Item) {
						return newFail("get differs from model", "%s table %s key %s: want %s got %s", d.Name(), tn, model.CanonItem(k), model.CanonItem(mt.Items[ck]), model.CanonItem(g.Item))
					}
				}
			}
		}
	}
	return nil
}

// indexQueries queries every index once per index hash value in use and
// compares the result with the model's view (multiset and sort order).
func (w *world) indexQueries(d drv.Real, tn string, mt *model.Table) *failure {
	for _, ix := range mt.Schema.Indexes {
		if open("F-NUMSORT") && numSortMismatch(mt, ix.Name) {
			stats.For(w.prop).Exclude("F-NUMSORT")
			continue
		}
		seen := map[string]bool{}
		for _, it := range mt.View(ix.Name) {
			hv := it[ix.Hash]
			if seen[model.Canon(hv)] {
				continue
			}
			seen[model.Canon(hv)] = true
			inexact := false
			for _, other := range mt.View(ix.Name) {
				if ov := other[ix.Hash]; ov.T == "N" && !model.FloatExact(ov.S) {
					inexact = true // (an exact value may still be float64-equal to an inexact neighbour)
				}
			}
			if hv.T == "N" && open("F-FLOAT") && inexact {
				// the key condition is an expression: numbers beyond float64 precision are F-FLOAT's
				stats.For(w.prop).Exclude("F-FLOAT")
				continue
			}
			for _, back := range []bool{false, true} {
				op := model.Op{Kind: "Query", Table: tn, Index: ix.Name, KeyCond: "#h = :h", Names: map[string]string{"#h": ix.Hash},
					Values: map[string]model.AV{":h": hv}, Backward: back}
				want := w.m.Clone().Apply(op)
				if want.Weak || want.Err != "" {
					continue
				}
				got := d.Apply(op)
				if f := compareResult(op, want, got, d.Name()); f != nil {
					f.Class = "index query differs from model"
					return f
				}
			}
		}
	}
	return nil
}

func (w *world) whitebox(d drv.Real, tn string, mt *model.Table) *failure {
	wb := d.Whitebox(tn)
	if wb == nil {
		return newFail("table missing in client", "%s table %s", d.Name(), tn)
	}
	if !sort.StringsAreSorted(wb.SortedKeys) {
		return newFail("SortedKeys not sorted", "%s table %s: %q", d.Name(), tn, wb.SortedKeys)
	}
	for i := 1; i < len(wb.SortedKeys); i++ {
		if wb.SortedKeys[i] == wb.SortedKeys[i-1] {
			return newFail("SortedKeys has duplicates", "%s table %s: %q", d.Name(), tn, wb.SortedKeys)
		}
	}
	if !sameStrings(wb.SortedKeys, wb.DataKeys) {
		return newFail("SortedKeys differs from Data keys", "%s table %s: sorted %q data %q", d.Name(), tn, wb.SortedKeys, wb.DataKeys)
	}
	for name, ix := range wb.Indexes {
		vals := make([]string, 0, len(ix.Refs))
		for pk, ik := range ix.Refs {
			vals = append(vals, ik)
			found := false
			for _, dk := range wb.DataKeys {
				if dk == pk {
					found = true
				}
			}
			if !found {
				return newFail("index ref to a missing item", "%s table %s index %s: ref %q", d.Name(), tn, name, pk)
			}
		}
		sort.Strings(vals)
		if !sort.StringsAreSorted(ix.SortedKeys) {
			return newFail("index sortedKeys not sorted", "%s table %s index %s: %q", d.Name(), tn, name, ix.SortedKeys)
		}
		if !sameStrings(vals, ix.SortedKeys) {
			return newFail("index refs and sortedKeys disagree", "%s table %s index %s: refs %q sortedKeys %q", d.Name(), tn, name, vals, ix.SortedKeys)
		}
	}
	return nil
}

// historyCase is the replayable form of a stateful case.
type historyCase struct {
	CheckEvery int                     `json:"checkEvery,omitempty"`
	Cfg        worldCfg                `json:"cfg"`
	Pool       map[string][]model.Item `json:"pool,omitempty"`
	Ops        []model.Op              `json:"ops"`
}

func (w *world) asCase() historyCase {
	return historyCase{CheckEvery: w.checkEvery, Cfg: w.cfg, Pool: w.pool, Ops: w.Ops}
}

// replayHistory re-executes a recorded history with a check after each step.
func replayHistory(prop string) func(raw json.RawMessage) *failure {
	return func(raw json.RawMessage) *failure {
		var hc historyCase
		if err := json.Unmarshal(raw, &hc); err != nil {
			return newFail("bad replay file", "%v", err)
		}
		w := newWorld(prop, hc.Cfg)
		if hc.Pool != nil {
			w.pool = hc.Pool
		}
		w.checkEvery = hc.CheckEvery
		for _, op := range hc.Ops {
			if _, _, f := w.do(op); f != nil {
				return f
			}
			if f := w.maybeCheck(); f != nil {
				return f
			}
		}
		return w.check()
	}
}

func init() {
	for _, p := range []string{"C01", "C02", "C03", "C05", "C08", "C13", "C15", "C18", "C19"} {
		replayers["history:"+p] = replayHistory(p)
	}
}

// realDrivers returns fresh drivers for both clients.
func realDrivers() []drv.Real { return []drv.Real{drv.NewV1(), drv.NewV2()} }

// isDataOp: the operations C08 calls data operations (table management calls
// are not required to be traceless when they fail: a rejected UpdateTable may
// have registered attribute definitions, which no read can observe).
func isDataOp(kind string) bool {
	switch kind {
	case "Put", "Update", "Delete", "Get", "Query", "Scan", "BatchWrite", "BatchGet", "TransactWrite":
		return true
	}
	return false
}

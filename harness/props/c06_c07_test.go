package props

import (
	"context"
	"encoding/json"
	"fmt"
	"strings"
	"testing"

	"pgregory.net/rapid"

	"github.com/truora/minidyn/interpreter"

	"verifharness/drv"
	"verifharness/gen"
	"verifharness/model"
	"verifharness/stats"
)

var _ = context.Background

// exprCase is one expression-evaluation case (C06, C07, C12).
type exprCase struct {
	Expr   string              `json:"expr"`
	Item   model.Item          `json:"item"`
	Absent bool                `json:"absent,omitempty"` // C07: the item does not exist (Item holds the key attributes)
	Names  map[string]string   `json:"names,omitempty"`
	Values map[string]model.AV `json:"values,omitempty"`
	API    bool                `json:"api,omitempty"`
	// Warm: another expression (a twin of Expr that differs in the letter case
	// of one identifier) evaluated first on the same interpreter instance
	Warm       string              `json:"warm,omitempty"`
	WarmNames  map[string]string   `json:"warmNames,omitempty"`
	WarmValues map[string]model.AV `json:"warmValues,omitempty"`
	WarmItem   model.Item          `json:"warmItem,omitempty"` // the item the warm expression is evaluated on (default: Item)
	// Flood: the expression itself is evaluated first, then this many other,
	// distinct expression texts, all on the same interpreter instance, before the
	// evaluation that is compared (anything remembered per text must survive,
	// or be forgotten cleanly, however many other texts the instance has seen)
	Flood int    `json:"flood,omitempty"`
	RV    string `json:"rv,omitempty"`    // C07 API sample: the ReturnValues parameter of the UpdateItem
	Debug bool   `json:"debug,omitempty"` // C07 API sample: ActivateDebug() before the table is created

	lang *interpreter.Language // one instance per case (nil: a fresh one per call)
}

func (c exprCase) interp() *interpreter.Language {
	if c.lang != nil {
		return c.lang
	}
	return &interpreter.Language{}
}

// richItem draws an item that contains (most of) the ten types, nested
// documents and sets, so that generated paths hit data of every type.
func richItem(rt *rapid.T, o gen.AVOpts) model.Item {
	it := model.Item{}
	add := func(name string, f func() model.AV) {
		if rapid.IntRange(0, 9).Draw(rt, "has_"+name) < 7 {
			it[name] = f()
		}
	}
	sub := o
	sub.Depth = 2
	// attribute names that look like the placeholders the generator allocates
	// (an alias may then be bound to its own text, or to another alias's text)
	for _, hn := range []string{"#n1", "#n2"} {
		if rapid.IntRange(0, 39).Draw(rt, "has_"+hn) == 17 { // (rapid favours the ends of a range)
			it[hn] = model.Str(gen.Str(o.ASCII).Draw(rt, "hashNamed"))
		}
	}
	// attribute names that look like the value placeholders the generator allocates:
	// the request's value, not the attribute of that name, is what ":v1" in an expression means
	for _, vn := range []string{":v1", ":v2", ":1", ":_1"} {
		if rapid.IntRange(0, 39).Draw(rt, "has_"+vn) == 23 {
			it[vn] = gen.AV(rt, sub, "valueNamed")
		}
	}
	// a document four and five levels deep (paths of four and more segments)
	if rapid.IntRange(0, 3).Draw(rt, "has_deep") == 2 {
		leaf := func(l string) model.AV { return model.Str(gen.Str(o.ASCII).Draw(rt, l)) }
		it["deep"] = model.Map(map[string]model.AV{
			"k": leaf("deepK"),
			"a": model.Map(map[string]model.AV{
				"k": leaf("deepAK"),
				"b": model.Map(map[string]model.AV{"k": leaf("deepABK"), "c": model.Map(map[string]model.AV{"k": leaf("deepABCK"), "ss": model.StrSet("x", "y")})}),
				"l": model.List(model.Map(map[string]model.AV{"k": leaf("deepALK"), "n": model.Num("1")}), leaf("deepAL1")),
			}),
			"b": model.Map(map[string]model.AV{"k": leaf("deepBK"), "c": model.Map(map[string]model.AV{"k": leaf("deepBCK")})}),
		})
	}
	// a longer list: several actions of one update may address its elements
	if rapid.IntRange(0, 2).Draw(rt, "has_ll") == 1 {
		it["ll"] = model.List(model.Str(gen.Str(o.ASCII).Draw(rt, "ll0")), model.Num("1"), model.Map(map[string]model.AV{"k": model.Num("2")}),
			model.Str("d"), model.List(model.Str("e")), model.StrSet("x", "y"))
	}
	add("s", func() model.AV { return model.Str(gen.Str(o.ASCII).Draw(rt, "s")) })
	add("s2", func() model.AV { return model.Str(gen.Str(o.ASCII).Draw(rt, "s2")) })
	add("n", func() model.AV { return model.Num(gen.Numeral(rt, o, "n")) })
	add("n2", func() model.AV { return model.Num(gen.Numeral(rt, o, "n2")) })
	add("b", func() model.AV { return model.Bin(gen.Bytes(!o.NoEmptyBin).Draw(rt, "b")) })
	add("t", func() model.AV { return model.Bool(rapid.Bool().Draw(rt, "t")) })
	add("z", func() model.AV { return model.Null() })
	add("l", func() model.AV {
		n := rapid.IntRange(0, 3).Draw(rt, "lLen")
		if o.NoEmptyLM && n == 0 {
			n = 1
		}
		l := model.List()
		for i := 0; i < n; i++ {
			l.L = append(l.L, gen.AV(rt, sub, "lElem"))
		}
		return l
	})
	add("m", func() model.AV {
		m := model.Map(nil)
		n := rapid.IntRange(0, 3).Draw(rt, "mLen")
		if o.NoEmptyLM && n == 0 {
			n = 1
		}
		for i := 0; i < n; i++ {
			m.M[rapid.SampledFrom([]string{"k", "k2", "x", "deep"}).Draw(rt, "mKey")] = gen.AV(rt, sub, "mVal")
		}
		return m
	})
	add("ss", func() model.AV {
		v := gen.AV(rt, gen.AVOpts{Depth: 1, ASCII: o.ASCII}, "ssV")
		for i := 0; v.T != "SS" && i < 40; i++ {
			v = gen.AV(rt, gen.AVOpts{Depth: 1, ASCII: o.ASCII}, "ssV")
		}
		if v.T != "SS" {
			v = model.StrSet("a", "b")
		}
		return v
	})
	add("ns", func() model.AV {
		n := rapid.IntRange(1, 3).Draw(rt, "nsLen")
		var m []string
		for i := 0; len(m) < n && i < 10; i++ {
			s := gen.Numeral(rt, o, "nsV")
			dup := false
			for _, x := range m {
				if model.MustDec(x).Cmp(model.MustDec(s)) == 0 {
					dup = true
				}
			}
			if !dup {
				m = append(m, s)
			}
		}
		return model.NumSet(m...)
	})
	add("bs", func() model.AV {
		m := [][]byte{gen.Bytes(false).Draw(rt, "bsV")}
		for i, n := 0, rapid.IntRange(0, 2).Draw(rt, "bsMore"); i < n; i++ {
			b := gen.Bytes(false).Draw(rt, "bsV")
			dup := false
			for _, x := range m {
				if string(x) == string(b) {
					dup = true
				}
			}
			if !dup {
				m = append(m, b)
			}
		}
		return model.BinSet(m...)
	})
	for k, v := range gen.Attrs(rt, sub, 2, "extra") {
		if _, ok := it[k]; !ok {
			it[k] = v
		}
	}
	return it
}

// exprGuards returns the open findings whose trigger the case satisfies.
func exprGuards(names map[string]string, paths []model.Path, item model.Item, values map[string]model.AV, condition ...bool) []string {
	return exprGuardsX(names, paths, item, values, nil, condition...)
}

// removeOnlyAliases returns the aliases of an update that are used only as
// whole one-element targets of REMOVE actions. Removing a top-level attribute
// looks the name up verbatim (no splitting at dots), so F-ALIASDOT does not
// show for them as long as the preceding evaluation of the name is harmless
// (dottedNameHarmless).
func removeOnlyAliases(u model.Update, names map[string]string) map[string]bool {
	uses, removes := map[string]int{}, map[string]int{}
	model.WalkUpdate(u, func(x model.Expr) {
		if p, ok := x.(model.Path); ok {
			for _, el := range p.Elems {
				if !el.IsIndex {
					uses[el.Name]++
				}
			}
		}
	})
	for _, cl := range u.Clauses {
		if cl.Kind != "REMOVE" {
			continue
		}
		for _, a := range cl.Actions {
			if len(a.Path.Elems) == 1 && !a.Path.Elems[0].IsIndex {
				removes[a.Path.Elems[0].Name]++
			}
		}
	}
	// attributes written by any action of the expression (by the time the REMOVE
	// is evaluated the item may already hold them, with any type)
	heads := map[string]int{}
	for _, cl := range u.Clauses {
		for _, a := range cl.Actions {
			if len(a.Path.Elems) == 0 || a.Path.Elems[0].IsIndex {
				continue
			}
			h := a.Path.Elems[0].Name
			if v, ok := names[h]; ok {
				h = v
			}
			heads[strings.SplitN(h, ".", 2)[0]]++
			heads[h]++
		}
	}
	out := map[string]bool{}
	for k, v := range names {
		if uses[k] > 0 && uses[k] == removes[k] && heads[strings.SplitN(v, ".", 2)[0]] == removes[k] {
			out[k] = true
		}
	}
	return out
}

// dottedNameHarmless: before it removes a top-level attribute the interpreter
// evaluates the name once, which splits it at the dots when no attribute of
// exactly that name exists (F-ALIASDOT) and fails when a step is applied to a
// value that is not a map. The evaluation is harmless when the exact name
// exists, when the head of the split name is absent, or when every step but
// the last leads through maps the item holds.
func dottedNameHarmless(name string, item model.Item, names map[string]string) bool {
	if _, ok := item[name]; ok {
		return true
	}
	if strings.ContainsAny(name, "[]") {
		return false
	}
	parts := strings.Split(name, ".")
	for _, p := range parts {
		if _, isAlias := names[p]; isAlias || p == "" {
			return false
		}
	}
	cur, ok := item[parts[0]]
	if !ok {
		return true
	}
	for i, p := range parts[1:] {
		if cur.T != "M" {
			return false
		}
		if i == len(parts)-2 {
			return true
		}
		if cur, ok = cur.M[p]; !ok {
			return false
		}
	}
	return true
}

// exprGuardsX is exprGuards with a set of aliases for which F-ALIASDOT is known not to show.
func exprGuardsX(names map[string]string, paths []model.Path, item model.Item, values map[string]model.AV, noAliasDot map[string]bool, condition ...bool) []string {
	var ids []string
	add := func(id string) {
		if open(id) {
			ids = append(ids, id)
		}
	}
	for k, v := range names {
		if !strings.Contains(v, ".") {
			continue
		}
		// F-ALIASDOT: a dotted attribute name behind an alias is looked up
		// verbatim first and only then split into a path. In a condition the
		// finding therefore does not show when the item holds the attribute
		// and every use of the alias is a whole one-element path.
		if noAliasDot[k] && dottedNameHarmless(v, item, names) {
			continue
		}
		benign := len(condition) > 0 && condition[0]
		if _, ok := item[v]; !ok {
			benign = false
		}
		for _, p := range paths {
			for _, el := range p.Elems {
				if !el.IsIndex && el.Name == k && len(p.Elems) != 1 {
					benign = false
				}
			}
		}
		if !benign {
			add("F-ALIASDOT")
		}
	}
	// F-PHCOLLIDE: an attribute literally named like a #name key of the request
	// (stored in the item, or addressed through another alias)
	for k := range names {
		if _, ok := item[k]; ok {
			add("F-PHCOLLIDE")
		}
		for _, v := range names {
			if v == k {
				add("F-PHCOLLIDE")
			}
		}
	}
	// (the same for an alias that addresses an attribute named like a :value key of the request)
	for _, v := range names {
		if _, ok := values[v]; ok {
			add("F-PHCOLLIDE")
		}
	}
	env := model.Env{Names: names, Values: values}
	for _, p := range paths {
		if model.PathWrongKind(p, item, env) {
			add("F-PATHTYPE")
		}
		for i, el := range p.Elems {
			if i > 0 && !el.IsIndex && !strings.HasPrefix(el.Name, "#") && model.IsReserved(el.Name) {
				add("F-RESNESTED")
			}
		}
	}
	return ids
}

func pathsOf(e model.Expr) []model.Path {
	var out []model.Path
	model.WalkExpr(e, func(x model.Expr) {
		if p, ok := x.(model.Path); ok {
			out = append(out, p)
		}
	})
	return out
}

// implMatch evaluates a condition with the implementation's interpreter.
func implMatch(c exprCase) (o model.Outcome, text string, runtimePanic bool) {
	defer func() {
		if r := recover(); r != nil {
			cls, t := drv.ClassifyPanic(r)
			text = t
			if cls == model.ErrRuntimePanic {
				runtimePanic = true
			}
			o = model.OE
		}
	}()
	li := c.interp()
	ok, err := li.Match(interpreter.MatchInput{TableName: "t", Expression: c.Expr, ExpressionType: interpreter.ExpressionTypeFilter,
		Item: drv.ToTypesItem(c.Item), Attributes: drv.ToTypesItem(c.Values), Aliases: c.Names})
	if err != nil {
		return model.OE, err.Error(), false
	}
	if ok {
		return model.OT, "", false
	}
	return model.OF, "", false
}

func countAtoms(e model.Expr) int {
	n := 0
	model.WalkExpr(e, func(x model.Expr) {
		switch x.(type) {
		case model.Cmp, model.Between, model.In:
			n++
		case model.Func:
			if x.(model.Func).Name != "size" {
				n++
			}
		}
	})
	return n
}

type c06Info struct {
	want      model.Outcome
	atoms     int
	dependent bool
	guarded   []string
}

func runC06(c exprCase, info *c06Info) *failure {
	e, perr := model.ParseCondition(c.Expr)
	if perr != nil {
		return newFail("harness: generated condition does not parse", "%q: %v", c.Expr, perr)
	}
	if ids := exprGuards(c.Names, pathsOf(e), c.Item, c.Values, true); len(ids) > 0 {
		info.guarded = ids
		return nil
	}
	env := model.Env{Item: c.Item, Names: c.Names, Values: c.Values}
	want := model.EvalCond(e, env)
	info.want = want
	info.atoms = countAtoms(e)
	empty := model.EvalCond(e, model.Env{Item: model.Item{}, Names: c.Names, Values: c.Values})
	info.dependent = want.Single() && empty.Single() && want != empty
	beforeItem, beforeVals := model.CanonItem(c.Item), model.CanonItem(c.Values)
	c.lang = &interpreter.Language{}
	if c.Warm != "" {
		wi := c.Item
		if c.WarmItem != nil {
			wi = c.WarmItem
		}
		if _, wt, wrtp := implMatch(exprCase{Expr: c.Warm, Item: model.CloneItem(wi), Names: c.WarmNames, Values: c.WarmValues, lang: c.lang}); wrtp {
			return newFail("runtime panic", "Match(%q): %s", c.Warm, wt)
		}
	}
	if c.Flood > 0 {
		if _, wt, wrtp := implMatch(exprCase{Expr: c.Expr, Item: model.CloneItem(c.Item), Names: c.Names, Values: model.CloneItem(c.Values), lang: c.lang}); wrtp {
			return newFail("runtime panic", "Match(%q): %s", c.Expr, wt)
		}
		for i := 0; i < c.Flood; i++ {
			f := fmt.Sprintf("attribute_exists(zf%d)", i)
			if i%2 == 1 {
				f = fmt.Sprintf("attribute_not_exists(zf%d)", i)
			}
			if _, wt, wrtp := implMatch(exprCase{Expr: f, Item: model.CloneItem(c.Item), lang: c.lang}); wrtp {
				return newFail("runtime panic", "Match(%q): %s", f, wt)
			}
		}
	}
	got, text, rtp := implMatch(c)
	if rtp {
		return newFail("runtime panic", "Match(%q): %s", c.Expr, text)
	}
	if model.CanonItem(c.Item) != beforeItem || model.CanonItem(c.Values) != beforeVals {
		return newFail("evaluation modified its inputs", "%q", c.Expr)
	}
	if !want.Has(got) {
		return newFail("condition outcome differs", "%q on %s with %s: model %s, implementation %s %s", c.Expr, model.CanonItem(c.Item), model.CanonItem(c.Values), want, got, text)
	}
	// operand order of AND / OR must not matter
	if l, ok := model.StripParens(e).(model.Logic); ok && got != model.OE {
		sw := c
		sw.Expr = model.Render(model.Logic{Op: l.Op, L: model.Paren{X: l.R}, R: model.Paren{X: l.L}})
		g2, t2, rtp2 := implMatch(sw)
		if rtp2 {
			return newFail("runtime panic", "Match(%q): %s", sw.Expr, t2)
		}
		if g2 != model.OE && g2 != got {
			return newFail("AND/OR is not commutative", "%q gives %s, %q gives %s", c.Expr, got, sw.Expr, g2)
		}
	}
	if c.API && want.Single() {
		if f := c06API(c, want); f != nil {
			return f
		}
	}
	return nil
}

// c06API pushes the condition through the client API as Scan filter, Query
// filter and PutItem condition on both clients.
func c06API(c exprCase, want model.Outcome) *failure {
	for _, d := range []drv.Real{drv.NewV1(), drv.NewV2()} {
		s := sTable("tbl", false)
		d.Apply(model.Op{Kind: "CreateTable", Schema: s})
		it := model.CloneItem(c.Item)
		it["pk"] = model.Str("the-key")
		if r := d.Apply(model.Op{Kind: "Put", Table: "tbl", Item: it}); r.Err != "" {
			return nil // the item itself is not storable through this client (not C06's subject)
		}
		env := model.Env{Item: it, Names: c.Names, Values: c.Values}
		e, _ := model.ParseCondition(c.Expr)
		w := model.EvalCond(e, env)
		if !w.Single() {
			return nil
		}
		scan := d.Apply(model.Op{Kind: "Scan", Table: "tbl", Filter: c.Expr, Names: c.Names, Values: c.Values})
		put := d.Apply(model.Op{Kind: "Put", Table: "tbl", Item: it, Cond: c.Expr, Names: c.Names, Values: c.Values})
		for _, r := range []struct {
			what string
			res  model.Result
		}{{"Scan filter", scan}, {"PutItem condition", put}} {
			if r.res.Err == model.ErrRuntimePanic {
				return newFail("runtime panic", "%s %s %q: %s", d.Name(), r.what, c.Expr, r.res.ErrText)
			}
			var got model.Outcome
			switch {
			case r.what == "Scan filter" && r.res.Err == "":
				got = model.OF
				if len(r.res.Items) == 1 {
					got = model.OT
				}
			case r.res.Err == "":
				got = model.OT
			case r.res.Err == model.ErrCondFailed:
				got = model.OF
			case model.IsExprErrClass(r.res.Err):
				got = model.OE
			default:
				return newFail("unexpected error class at the API", "%s %s %q: %s %s", d.Name(), r.what, c.Expr, r.res.Err, r.res.ErrText)
			}
			if got != w {
				return newFail("condition outcome differs at the API", "%s %s %q on %s: model %s, implementation %s (%s)", d.Name(), r.what, c.Expr, model.CanonItem(it), w, got, r.res.ErrText)
			}
		}
	}
	return nil
}

const ruleC06 = "rapid: (condition AST, item, bindings) - ASTs up to depth 6 over comparators, BETWEEN, IN, AND/OR/NOT, parentheses, document paths (nested members, list elements, elements past the end, missing parents), #name/:value placeholders and the six functions; operands drawn from an item holding (most of) the ten types so that ~half of the atoms are well typed and present, the rest type mismatches, absences, NULL-typed attributes; rendered with random extra whitespace. In an eighth of the cases a twin that differs only in the letter case of one identifier, in another eighth the same text with values of the same shape and other contents, in another eighth an expression that is rejected on another, richer item, is evaluated first on the same interpreter instance. Oracle: the reference evaluator's outcome set vs interpreter.Language.Match called directly; plus purity of item and bindings, commutation of AND/OR operands, and for a tenth of the cases the same condition as Scan filter and PutItem condition through both SDK clients. One case in 64 in flood mode (the expression itself, then 64-130 other texts, then the compared evaluation, on one interpreter instance); operands include set twins (same size, one member differs) and one attribute compared twice. Non-trivial = >= 2 atoms and a singleton model outcome that flips when the item is replaced by the empty item; distinct = hash of (expression, item, bindings)."

// TestC06 decides property C06.
func TestC06(t *testing.T) {
	st := stats.For("C06")
	st.SetRule(ruleC06)
	rapid.Check(t, propC06)
}

// FuzzC06 drives the same property from the native coverage-guided fuzzer
// (thorough tier): the fuzzer's bytes are the source of rapid's draws.
func FuzzC06(f *testing.F) {
	stats.For("C06").SetRule(ruleC06)
	f.Fuzz(rapid.MakeFuzz(propC06))
}

func propC06(rt *rapid.T) {
	st := stats.For("C06")
	{
		o := avOpts(3, false)
		it := richItem(rt, o)
		c := gen.NewExprCtx(it, o).Style(rt)
		c.IllTyped = rapid.SampledFrom([]int{0, 5, 10, 25}).Draw(rt, "illTypedPct")
		e := c.Cond(rt, rapid.IntRange(0, 5).Draw(rt, "depth"))
		ec := exprCase{Expr: gen.Decorate(rt, model.Render(e)), Item: it, Names: c.Names, Values: c.Values,
			API: rapid.IntRange(0, 9).Draw(rt, "api") == 0}
		ec.Names, ec.Values = pruneUnused(ec.Names, ec.Values, ec.Expr)
		if len(ec.Names) == 0 {
			ec.Names = nil
		}
		switch rapid.IntRange(0, 15).Draw(rt, "twinFirst") {
		case 3, 4:
			if tw, n2, v2, ok := condCaseTwin(rt, e, ec.Names, ec.Values); ok {
				ec.Warm, ec.WarmNames, ec.WarmValues = tw, n2, v2
				st.Class("case-twin-evaluated-first")
			}
		case 6, 12:
			// an evaluation that is rejected after another, richer item was loaded, first
			ec.Warm = rapid.SampledFrom([]string{"attribute_type(s, :badtype)", "nosuchfn(s) = :badtype", "begins_with(n, :badtype) AND size(t) > :badtype"}).Draw(rt, "rejectedFirst")
			ec.WarmValues = map[string]model.AV{":badtype": model.Str("nosuchtype")}
			ec.WarmItem = richItem(rt, o)
			// ... holding every name the expression may look for in vain
			for _, ghost := range []string{"zz", "missing", "nope", "nokey", "k", "s", "n", "t"} {
				if _, ok := ec.WarmItem[ghost]; !ok {
					ec.WarmItem[ghost] = model.Str("left behind")
				}
			}
			st.Class("rejected-evaluation-on-another-item-first")
		case 9, 10:
			if len(ec.Values) > 0 {
				// the same text first with values of the same shape and other contents
				ec.Warm, ec.WarmNames, ec.WarmValues = ec.Expr, ec.Names, valueTwin(rt, ec.Values, o)
				st.Class("value-twin-evaluated-first")
			}
		case 7, 13:
			if len(ec.Names) > 0 {
				// the same text first with every #name bound to another attribute
				other := map[string]string{}
				for _, k := range sortedKeys(ec.Names) {
					other[k] = rapid.SampledFrom([]string{"s", "s2", "n", "n2", "b", "t", "z", "l", "m", "ss", "ns", "zz", "k"}).Filter(func(a string) bool { return a != ec.Names[k] }).Draw(rt, "reboundName")
				}
				ec.Warm, ec.WarmNames, ec.WarmValues = ec.Expr, other, ec.Values
				st.Class("name-twin-evaluated-first")
			}
		}
		if rapid.IntRange(0, 63).Draw(rt, "flood") == 37 {
			ec.Flood = rapid.SampledFrom([]int{64, 65, 70, 130}).Draw(rt, "floodTexts")
			st.Class("evaluated-again-after-many-other-texts")
		}
		pending("C06", "c06", ec)
		info := &c06Info{}
		f := runC06(ec, info)
		for _, id := range info.guarded {
			st.Exclude(id)
		}
		if len(info.guarded) > 0 {
			return
		}
		if !info.want.Single() {
			st.WeakCase()
		}
		st.Case(info.atoms >= 2 && info.dependent, ec)
		st.Class("outcome-" + info.want.String())
		if ec.API {
			st.Class("also-through-the-client-API")
		}
		model.WalkExpr(e, func(x model.Expr) {
			switch n := x.(type) {
			case model.Func:
				st.Class("fn-" + n.Name)
			case model.Between:
				st.Class("BETWEEN")
			case model.In:
				st.Class("IN")
			case model.Not:
				st.Class("NOT")
			case model.Path:
				if len(n.Elems) > 1 {
					st.Class("nested-path")
				}
			}
		})
		if f != nil {
			failCase(rt, "C06", "c06", f, ec)
		}
	}
}

func init() {
	replayers["c06"] = func(raw json.RawMessage) *failure {
		var c exprCase
		if err := json.Unmarshal(raw, &c); err != nil {
			return newFail("bad replay file", "%v", err)
		}
		return runC06(c, &c06Info{})
	}
	replayers["c07"] = func(raw json.RawMessage) *failure {
		var c exprCase
		if err := json.Unmarshal(raw, &c); err != nil {
			return newFail("bad replay file", "%v", err)
		}
		return runC07(c, &c07Info{})
	}
}

// ---------------------------------------------------------------- C07

type c07Info struct {
	res       model.UpdateResult
	actions   int
	nested    bool
	guarded   []string
	crossRead bool
}

func implUpdate(c exprCase) (item model.Item, errText string, failed bool, runtimePanic bool) {
	typed := drv.ToTypesItem(c.Item)
	defer func() {
		if r := recover(); r != nil {
			cls, t := drv.ClassifyPanic(r)
			errText, failed = t, true
			runtimePanic = cls == model.ErrRuntimePanic
			item = drv.FromTypesItem(typed)
		}
	}()
	li := c.interp()
	err := li.Update(interpreter.UpdateInput{TableName: "t", Expression: c.Expr, Item: typed, Attributes: drv.ToTypesItem(c.Values), Aliases: c.Names})
	if err != nil {
		return drv.FromTypesItem(typed), err.Error(), true, false
	}
	return drv.FromTypesItem(typed), "", false, false
}

func runC07(c exprCase, info *c07Info) *failure {
	u, perr := model.ParseUpdate(c.Expr)
	if perr != nil {
		return newFail("harness: generated update does not parse", "%q: %v", c.Expr, perr)
	}
	var paths []model.Path
	model.WalkUpdate(u, func(x model.Expr) {
		if p, ok := x.(model.Path); ok {
			paths = append(paths, p)
		}
	})
	env := model.Env{Item: c.Item, Names: c.Names, Values: c.Values}
	ids := exprGuardsX(c.Names, paths, c.Item, c.Values, removeOnlyAliases(u, c.Names))
	for _, id := range model.UpdateGuards(u, c.Item, env, nil) {
		if open(id) {
			ids = append(ids, id)
			if id == "F-SETORDER" {
				info.crossRead = true
			}
		}
	}
	if len(ids) > 0 {
		info.guarded = ids
		return nil
	}
	for _, cl := range u.Clauses {
		info.actions += len(cl.Actions)
		for _, a := range cl.Actions {
			if len(a.Path.Elems) > 1 {
				info.nested = true
			}
		}
	}
	res := model.ApplyUpdate(u, c.Item, env, nil)
	info.res = res
	if res.Weak {
		return nil
	}
	before := model.CanonItem(c.Item)
	beforeVals := model.CanonItem(c.Values)
	c.lang = &interpreter.Language{}
	if c.Warm != "" {
		if _, wt, _, wrtp := implUpdate(exprCase{Expr: c.Warm, Item: model.CloneItem(c.Item), Names: c.WarmNames, Values: c.WarmValues, lang: c.lang}); wrtp {
			return newFail("runtime panic", "Update(%q): %s", c.Warm, wt)
		}
	}
	if c.Flood > 0 {
		if _, wt, _, wrtp := implUpdate(exprCase{Expr: c.Expr, Item: model.CloneItem(c.Item), Absent: c.Absent, Names: c.Names, Values: model.CloneItem(c.Values), lang: c.lang}); wrtp {
			return newFail("runtime panic", "Update(%q): %s", c.Expr, wt)
		}
		for i := 0; i < c.Flood; i++ {
			f := fmt.Sprintf("SET zf%d = :zv", i)
			if i%2 == 1 {
				f = fmt.Sprintf("REMOVE zf%d", i)
			}
			fv := map[string]model.AV{}
			if i%2 == 0 {
				fv[":zv"] = model.Str("flood")
			}
			if _, wt, _, wrtp := implUpdate(exprCase{Expr: f, Item: model.CloneItem(c.Item), Absent: c.Absent, Values: fv, lang: c.lang}); wrtp {
				return newFail("runtime panic", "Update(%q): %s", f, wt)
			}
		}
	}
	got, errText, failed, rtp := implUpdate(c)
	if rtp {
		return newFail("runtime panic", "Update(%q): %s", c.Expr, errText)
	}
	if model.CanonItem(c.Values) != beforeVals {
		return newFail("evaluation modified its inputs", "%q", c.Expr)
	}
	switch {
	case res.Spec:
		if failed && model.CanonItem(got) != before {
			return newFail("failed update changed the item", "%q on %s: item after the error %s", c.Expr, before, model.CanonItem(got))
		}
		return nil
	case res.Err:
		if !failed {
			return newFail("invalid update accepted", "%q (%s)", c.Expr, res.Why)
		}
		if model.CanonItem(got) != before {
			return newFail("failed update changed the item", "%q on %s: item after the error %s", c.Expr, before, model.CanonItem(got))
		}
		return nil
	}
	if failed {
		return newFail("valid update rejected", "%q on %s: %s", c.Expr, before, errText)
	}
	if !model.ItemEqual(res.Item, got) {
		return newFail("item after update differs", "%q on %s with %s: model %s, implementation %s", c.Expr, before, model.CanonItem(c.Values), model.CanonItem(res.Item), model.CanonItem(got))
	}
	if c.API {
		return c07API(c, res)
	}
	return nil
}

// c07API runs the same update as UpdateItem + GetItem through both clients,
// on an existing item or (Absent) on an absent key.
func c07API(c exprCase, res model.UpdateResult) *failure {
	for _, d := range []drv.Real{drv.NewV1(), drv.NewV2()} {
		if d.Name() == "v2" && open("F-V2EMPTY") && (hasEmptyLM(res.Item) || hasEmptyLM(c.Item)) {
			continue
		}
		if c.Debug {
			// debug mode only prints; results must not depend on it
			switch x := d.(type) {
			case *drv.V1:
				x.C.ActivateDebug()
			case *drv.V2:
				x.C.ActivateDebug()
			}
		}
		d.Apply(model.Op{Kind: "CreateTable", Schema: sTable("tbl", false)})
		key := model.Item{"pk": model.Str("the-key")}
		want := model.CloneItem(res.Item)
		want["pk"] = model.Str("the-key")
		if !c.Absent {
			it := model.CloneItem(c.Item)
			it["pk"] = model.Str("the-key")
			if r := d.Apply(model.Op{Kind: "Put", Table: "tbl", Item: it}); r.Err != "" {
				return nil
			}
		}
		op := model.Op{Kind: "Update", Table: "tbl", Key: key, Update: c.Expr, Names: c.Names, Values: c.Values}
		if c.Warm != "" {
			// the same update text once before, on another key of the table and
			// without condition; then the request itself with a (true) condition
			// that brings a value placeholder of its own
			d.Apply(model.Op{Kind: "Update", Table: "tbl", Key: model.Item{"pk": model.Str("another-key")}, Update: c.Expr, Names: c.Names, Values: c.Values})
			op.Values = map[string]model.AV{":c07pk": model.Str("another-key")}
			for k, v := range c.Values {
				op.Values[k] = v
			}
			op.Cond = "pk <> :c07pk"
		}
		op.ReturnValues = c.RV
		up := d.Apply(op)
		if up.Err == model.ErrRuntimePanic {
			return newFail("runtime panic", "%s UpdateItem %q: %s", d.Name(), c.Expr, up.ErrText)
		}
		if up.Err != "" {
			return newFail("valid update rejected at the API", "%s UpdateItem %q: %s %s", d.Name(), c.Expr, up.Err, up.ErrText)
		}
		get := d.Apply(model.Op{Kind: "Get", Table: "tbl", Key: key})
		if !model.ItemEqual(want, get.Item) || c.RV == "" && !model.ItemEqual(want, up.Item) {
			return newFail("item after UpdateItem differs", "%s %q: model %s, returned %s, stored %s", d.Name(), c.Expr, model.CanonItem(want), model.CanonItem(up.Item), model.CanonItem(get.Item))
		}
	}
	return nil
}

const ruleC07 = "rapid: (update AST, item or absent item, bindings) - 1-4 clauses (SET with values, paths, + and -, if_not_exists, list_append; REMOVE of attributes, map members and list elements; ADD to numbers and sets; DELETE from sets) with 1-4 actions over non-overlapping targets, on items holding nested documents, lists and sets plus untargeted attributes of every type. In an eighth of the cases a twin that differs only in the letter case of one identifier is applied first (to a copy of the item) on the same interpreter instance. Oracle: the reference update semantics vs interpreter.Language.Update called directly - success/rejection, and on success equality of the entire item (targeted values, removed attributes gone, every other attribute unchanged by value); on rejection the item is unchanged; for a tenth of the cases also UpdateItem (half of them with an explicit ReturnValues parameter, a quarter with the client's debug mode on) + GetItem through both SDK clients, on an existing item and on an absent key. One case in 64 in flood mode as in C06; one in twelve also removes a list element and sets a later element of the same list; absent attributes with dotted names that would lead into a map the item holds (REMOVE-only uses pass the F-ALIASDOT guard). Non-trivial = >= 2 actions or a nested / list target; distinct = hash of (expression, item, bindings)."

// TestC07 decides property C07.
func TestC07(t *testing.T) {
	st := stats.For("C07")
	st.SetRule(ruleC07)
	rapid.Check(t, func(rt *rapid.T) {
		o := avOpts(3, false)
		absent := rapid.IntRange(0, 9).Draw(rt, "absent") == 0
		it := model.Item{}
		if !absent {
			it = richItem(rt, o)
		}
		c := gen.NewExprCtx(it, o).Style(rt)
		// absent attributes whose names, split at the dot, would lead into a map the
		// item may hold: REMOVE of such a name is a no-op, not a removal of the member
		// (in a tenth of the cases: most uses of such a name fall under F-ALIASDOT)
		if rapid.IntRange(0, 9).Draw(rt, "dottedAbsentName") == 4 {
			c.Absent = append(c.Absent, rapid.SampledFrom([]string{"m.k", "m.x", "deep.k"}).Draw(rt, "dottedAbsent"))
		}
		u := c.Update(rt, gen.UpdateCfg{MaxActions: 4, IllTyped: 8, ListSiblings: true})
		ec := exprCase{Expr: gen.Decorate(rt, model.RenderUpdate(u)), Item: it, Absent: absent, Names: c.Names, Values: c.Values,
			API: rapid.IntRange(0, 9).Draw(rt, "api") == 0}
		ec.Names, ec.Values = pruneUnused(ec.Names, ec.Values, ec.Expr)
		if len(ec.Names) == 0 {
			ec.Names = nil
		}
		if len(ec.Values) == 0 {
			ec.Values = nil
		}
		ec.Debug = ec.API && rapid.IntRange(0, 3).Draw(rt, "apiDebug") == 2
		if ec.API && rapid.Bool().Draw(rt, "apiReturnValues") {
			ec.RV = rapid.SampledFrom([]string{"NONE", "ALL_OLD", "UPDATED_OLD", "ALL_NEW", "UPDATED_NEW"}).Draw(rt, "rv")
		}
		if rapid.IntRange(0, 7).Draw(rt, "caseTwinFirst") == 0 {
			if tw, n2, v2, ok := updateCaseTwin(rt, u, ec.Names, ec.Values); ok {
				ec.Warm, ec.WarmNames, ec.WarmValues = tw, n2, v2
				st.Class("case-twin-evaluated-first")
			}
		}
		if rapid.IntRange(0, 63).Draw(rt, "flood") == 37 {
			ec.Flood = rapid.SampledFrom([]int{64, 65, 70, 130}).Draw(rt, "floodTexts")
			st.Class("evaluated-again-after-many-other-texts")
		}
		pending("C07", "c07", ec)
		info := &c07Info{}
		f := runC07(ec, info)
		for _, id := range info.guarded {
			st.Exclude(id)
		}
		if len(info.guarded) > 0 {
			return
		}
		if info.res.Weak {
			st.WeakCase()
			return
		}
		st.Case(info.actions >= 2 || info.nested, ec)
		switch {
		case info.res.Spec:
			st.Class("ill-typed-update")
		case info.res.Err:
			st.Class("invalid-update")
		default:
			st.Class("valid-update")
		}
		if absent {
			st.Class("absent-item")
		}
		if ec.API {
			st.Class("also-through-the-client-API")
		}
		for _, cl := range u.Clauses {
			st.Class("clause-" + cl.Kind)
		}
		if info.nested {
			st.Class("nested-target")
		}
		if f != nil {
			failCase(rt, "C07", "c07", f, ec)
		}
	})
}

package props

import (
	"encoding/json"
	"fmt"
	"testing"

	"pgregory.net/rapid"

	"verifharness/drv"
	"verifharness/model"
	"verifharness/stats"
)

// c04Case: a state built by a history, one read request, a Limit and an
// optional boundary delete after page DeleteAfter (1-based; 0 = none).
type c04Case struct {
	Setup       historyCase `json:"setup"`
	Read        model.Op    `json:"read"`
	Limit       int         `json:"limit"`
	DeleteAfter int         `json:"deleteAfter"`
	DeleteOther bool        `json:"deleteOther"` // delete an already returned item other than the boundary item
	// Second: after the walk, the same read in the opposite direction (Query) is
	// walked with this Limit on the same client (0 = no second walk)
	Second int `json:"second,omitempty"`
}

type c04Info struct {
	second      bool
	pages       int
	emptyPage   bool
	tieBoundary bool
	deleted     bool
	resultLen   int
}

func canonList(items []model.Item) []string {
	out := make([]string, len(items))
	for i, it := range items {
		out[i] = model.CanonItem(it)
	}
	return out
}

// paginate runs the paginated read on one driver and checks it against the
// same driver's unpaginated result.
func paginate(d drv.Real, w *world, c c04Case, info *c04Info) *failure {
	full := d.Apply(c.Read)
	if full.Err != "" {
		return nil // the read itself is not in C04's domain (C02/C06 decide it)
	}
	if len(full.LastKey) != 0 {
		return newFail("unpaginated read returned a LastEvaluatedKey", "%s: %s", d.Name(), model.CanonItem(full.LastKey))
	}
	info.resultLen = len(full.Items)
	mt := w.m.Tables[c.Read.Table]
	total := len(mt.View(c.Read.Index))
	var got []model.Item
	var start model.Item
	expected := full.Items
	for page := 1; ; page++ {
		if page > total+4 {
			return newFail("pagination does not terminate", "%s: %d pages for %d stored items", d.Name(), page, total)
		}
		op := c.Read
		op.Limit = c.Limit
		op.StartKey = start
		r := d.Apply(op)
		if r.Err != "" {
			return newFail("paginated read failed", "%s page %d: %s %s", d.Name(), page, r.Err, r.ErrText)
		}
		if len(r.Items) > c.Limit {
			return newFail("page larger than Limit", "%s page %d: %d items, limit %d", d.Name(), page, len(r.Items), c.Limit)
		}
		if r.Count != len(r.Items) {
			return newFail("count differs from items", "%s page %d: count %d items %d", d.Name(), page, r.Count, len(r.Items))
		}
		if len(r.Items) == 0 && len(r.LastKey) != 0 {
			info.emptyPage = true
		}
		got = append(got, r.Items...)
		info.pages = page
		if len(r.LastKey) == 0 {
			break
		}
		start = r.LastKey
		if c.DeleteAfter == page && d == w.ds[0] {
			// delete the boundary item (or another already returned one) on every driver and the model
			victim := mt.KeyItem(r.LastKey)
			if c.DeleteOther {
				if len(got) < 2 {
					continue
				}
				victim = mt.KeyItem(got[0])
				if model.ItemEqual(victim, mt.KeyItem(r.LastKey)) {
					continue
				}
			}
			if _, _, f := w.do(model.Op{Kind: "Delete", Table: c.Read.Table, Key: victim}); f != nil {
				return f
			}
			info.deleted = true
			after := d.Apply(c.Read)
			if after.Err != "" {
				return newFail("read after boundary delete failed", "%s: %s", d.Name(), after.Err)
			}
			// expected = what was already returned, then every remaining item
			// of the new unpaginated result that had not been returned yet
			seen := map[string]bool{}
			for _, it := range got {
				seen[model.CanonItem(mt.KeyItem(it))] = true
			}
			expected = append([]model.Item{}, got...)
			for _, it := range after.Items {
				if !seen[model.CanonItem(mt.KeyItem(it))] {
					expected = append(expected, it)
				}
			}
		}
	}
	if !sameStrings(canonList(expected), canonList(got)) {
		return newFail("paginated result differs from unpaginated", "%s limit %d: unpaginated %v paginated %v", d.Name(), c.Limit, canonList(expected), canonList(got))
	}
	return nil
}

func runC04(c c04Case, info *c04Info) *failure {
	w := newWorld("C04", c.Setup.Cfg)
	for _, op := range c.Setup.Ops {
		if _, _, f := w.do(op); f != nil {
			return f
		}
	}
	if c.DeleteAfter > 0 {
		// the boundary delete goes through world.do (all drivers): paginate the
		// first driver only, then compare the others in their own pass without delete
		return paginate(w.ds[0], w, c, info)
	}
	for _, d := range w.ds {
		if f := paginate(d, w, c, info); f != nil {
			return f
		}
		if c.Second > 0 {
			// a second walk on the same client and state, in the other direction
			c2 := c
			c2.Limit = c.Second
			if c2.Read.Kind == "Query" {
				c2.Read.Backward = !c2.Read.Backward
			}
			if f := paginate(d, w, c2, &c04Info{}); f != nil {
				return f
			}
			info.second = true
		}
	}
	return nil
}

func init() {
	replayers["c04"] = func(raw json.RawMessage) *failure {
		var c c04Case
		if err := json.Unmarshal(raw, &c); err != nil {
			return newFail("bad replay file", "%v", err)
		}
		return runC04(c, &c04Info{})
	}
}

const ruleC04 = "rapid: a table state built by a generated write history (hash+range schema, 0-2 indexes, index keys with many ties, 1-3 partitions; a tenth of the cases with 33-70 items in one or two partitions), a generated Query or Scan (key-condition shapes of C02, optional filter, both directions, table or index) and a Limit drawn from 1..n+2; metamorphic oracle on each SDK client against itself: following LastEvaluatedKey until none is returned yields exactly the item sequence of the same request without Limit, every page has at most Limit items, the number of pages is bounded by items+4, Count == len(Items); optionally the same read is walked a second time on the same client and state in the opposite direction with another Limit; optionally the item named by the LastEvaluatedKey of page k (or another already returned item) is deleted before continuing, and the remaining pages must be the not-yet-returned items of the new unpaginated result in order. Non-trivial = >= 3 pages, or a page of filtered-out items only, or a boundary delete; distinct = hash of (state, read, limit, delete plan)."

// TestC04 decides property C04.
func TestC04(t *testing.T) {
	st := stats.For("C04")
	st.SetRule(ruleC04)
	rapid.Check(t, func(rt *rapid.T) {
		w := newWorld("C04", worldCfg{V1: true, V2: true})
		s := drawSchema(rt, "tbl", schemaCfg{KeyTypes: []string{"S", "S", "N", "N", "B"}, MaxIndexes: 2, ForceRange: 1})
		o := avOpts(1, true)
		g := newTgen(rt, s, o, rapid.IntRange(3, 9).Draw(rt, "poolSize"))
		g.maxAttrs = 2
		// a tenth of the cases use a large table (dozens of items in one or two
		// partitions): page boundaries deep inside long key lists
		large := rapid.IntRange(0, 9).Draw(rt, "largeTable") == 0
		if large {
			g.keys = nil
			nk := rapid.IntRange(33, 70).Draw(rt, "largeKeys")
			for i := 0; i < nk; i++ {
				k := model.Item{s.Hash: drawKeyValue(rt, s.Attrs[s.Hash], o, "largeHash")}
				if i > 0 && rapid.IntRange(0, 9).Draw(rt, "sameHash") < 8 {
					k[s.Hash] = g.keys[0][s.Hash].Clone()
				}
				switch s.Attrs[s.Range] {
				case "N":
					k[s.Range] = model.Num(fmt.Sprint(100 + i))
				case "B":
					k[s.Range] = model.Bin([]byte{byte(i + 1), 3})
				default:
					k[s.Range] = model.Str(fmt.Sprintf("r%03d", i))
				}
				g.keys = append(g.keys, k)
			}
		}
		failSetup := func(f *failure) {
			if f != nil {
				failCase(rt, "C04", "history:C02", f, w.asCase())
			}
		}
		_, _, f := w.do(model.Op{Kind: "CreateTable", Schema: &s})
		failSetup(f)
		n := rapid.IntRange(1, 12).Draw(rt, "writes")
		if large {
			// put every key once, then a few more writes
			for _, k := range g.keys {
				it := g.item(rt)
				for a, v := range k {
					it[a] = v.Clone()
				}
				_, _, f = w.do(model.Op{Kind: "Put", Table: s.Table, Item: it})
				failSetup(f)
			}
			n = rapid.IntRange(0, 5).Draw(rt, "moreWrites")
		}
		for i := 0; i < n; i++ {
			switch rapid.IntRange(0, 9).Draw(rt, "writeKind") {
			case 0:
				_, _, f = w.do(model.Op{Kind: "Delete", Table: s.Table, Key: g.key(rt)})
			case 1:
				_, _, f = w.do(normOp(g.updateOp(rt, w.m, 0)))
			default:
				_, _, f = w.do(model.Op{Kind: "Put", Table: s.Table, Item: g.item(rt)})
			}
			failSetup(f)
		}
		read := g.readOp(rt, w.m, 40)
		// (F-NUMSORT - number and binary sort keys ordered by their text - is
		// about which order a read returns; the oracle here compares a client
		// with itself, so that finding needs no guard)
		var ids []string
		for _, id := range guardOp(read, w.m, true) {
			if id != "F-NUMSORT" {
				ids = append(ids, id)
			}
		}
		if len(ids) > 0 {
			for _, id := range ids {
				st.Exclude(id)
			}
			return
		}
		probe := w.m.Clone().Apply(read)
		if probe.Err != "" || probe.Weak {
			st.WeakCase()
			return
		}
		total := len(w.m.Tables[s.Table].View(read.Index))
		c := c04Case{Setup: w.asCase(), Read: read, Limit: rapid.IntRange(1, total+2).Draw(rt, "limit")}
		if rapid.IntRange(0, 9).Draw(rt, "boundaryDelete") < 4 {
			c.DeleteAfter = rapid.IntRange(1, 3).Draw(rt, "deleteAfterPage")
			c.DeleteOther = rapid.IntRange(0, 3).Draw(rt, "deleteOther") == 0
		} else if rapid.IntRange(0, 2).Draw(rt, "secondWalk") == 0 {
			c.Second = rapid.IntRange(1, total+2).Draw(rt, "secondLimit")
		}
		pending("C04", "c04", c)
		info := &c04Info{}
		f = runC04(c, info)
		nt := info.pages >= 3 || info.emptyPage || info.deleted
		st.Case(nt, c)
		if info.pages >= 3 {
			st.Class("three-or-more-pages")
		}
		if info.emptyPage {
			st.Class("page-of-filtered-out-items-only")
		}
		if info.deleted {
			st.Class("boundary-delete")
		}
		if large {
			st.Class("large-table")
		}
		if info.second {
			st.Class("second-walk-in-the-other-direction")
		}
		if read.Index != "" {
			st.Class("read-on-index")
		}
		if read.Backward {
			st.Class("read-descending")
		}
		if read.Filter != "" {
			st.Class("read-with-filter")
		}
		st.Class("read-" + read.Kind)
		if f != nil {
			failCase(rt, "C04", "c04", f, c)
		}
	})
}

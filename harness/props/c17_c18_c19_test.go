package props

import (
	"encoding/json"
	"fmt"
	"sort"
	"testing"

	"pgregory.net/rapid"

	"verifharness/drv"
	"verifharness/model"
	"verifharness/stats"
)

// ---------------------------------------------------------------- C17: v1 vs v2 differential

func resultCanon(op model.Op, r model.Result) string {
	out := map[string]interface{}{"err": r.Err}
	switch op.Kind {
	case "Get", "Update":
		out["item"] = model.CanonItem(r.Item)
	case "Delete":
		if op.ReturnOld {
			out["item"] = model.CanonItem(r.Item)
		}
	case "Query":
		out["items"] = itemsInOrder(r.Items)
		out["count"] = r.Count
		out["lastKey"] = model.CanonItem(r.LastKey)
	case "Scan":
		out["items"] = itemsInOrder(r.Items)
		out["count"] = r.Count
		out["lastKey"] = model.CanonItem(r.LastKey)
	case "BatchWrite":
		out["unprocessed"] = batchCanon(r.Unprocessed)
	case "DescribeTable", "DeleteTable", "DeleteIndex":
		out["desc"] = r.Desc
	case "CreateTable":
		if op.Schema == nil || !op.Schema.ViaAddTable {
			out["desc"] = r.Desc
		}
	case "AddIndex":
		if op.IndexSchema == nil || !op.IndexSchema.ViaHelper {
			out["desc"] = r.Desc
		}
	}
	if r.Err != "" {
		return fmt.Sprintf(`{"err":%q}`, r.Err)
	}
	b, _ := json.Marshal(out)
	return string(b)
}

// diffWorld runs the same abstract operation on both clients and compares the
// normalised results and the internal snapshots. The model is used only to
// generate sensible operations.
type diffWorld struct {
	v1  *drv.V1
	v2  *drv.V2
	m   *model.DB
	Ops []model.Op
}

func newDiffWorld() *diffWorld {
	return &diffWorld{v1: drv.NewV1(), v2: drv.NewV2(), m: model.NewDB()}
}

// sdkRejectsOnlyInV1 reports requests for which the v1 SDK's own parameter
// validation (input.Validate) fires; the v2 client has no such layer, and no
// real caller can send these requests through a real SDK.
func (w *diffWorld) do(op model.Op) (bool, *failure) {
	w.Ops = append(w.Ops, op)
	r1 := w.v1.Apply(op)
	r2 := w.v2.Apply(op)
	if r1.Err == model.ErrRuntimePanic || r2.Err == model.ErrRuntimePanic {
		return false, newFail("runtime panic", "%s: v1 %s %s / v2 %s %s", op.Kind, r1.Err, r1.ErrText, r2.Err, r2.ErrText)
	}
	if r1.Err == model.ErrSDKParam {
		// outside the common surface
		w.Ops = w.Ops[:len(w.Ops)-1]
		return false, nil
	}
	// documented panics and returned expression errors are one class
	norm := func(e string) string {
		if model.IsExprErrClass(e) && e != model.ErrValidation {
			return "ExpressionError"
		}
		return e
	}
	r1.Err, r2.Err = norm(r1.Err), norm(r2.Err)
	if op.Kind == "BatchWrite" && r1.Err != "" && r2.Err != "" {
		// a batch with more than one defect (say an unknown table and a wrongly typed
		// index key): which one is reported depends on the order in which the request
		// map is walked; both clients refusing it is what is compared
		r2.Err = r1.Err
	}
	c1, c2 := resultCanon(op, r1), resultCanon(op, r2)
	// open finding F-V2EMPTY: the v2 client returns empty lists / maps as NULL.
	// The v1 client returns them faithfully, so "the v1 response holds an empty
	// list or map" identifies exactly the responses that finding distorts; for
	// those only the internal states are compared.
	if c1 != c2 && open("F-V2EMPTY") && resultHasEmptyLM(r1) {
		stats.For("C17").Exclude("F-V2EMPTY")
		c2 = c1
	}
	if c1 != c2 {
		return false, newFail("clients disagree", "%s: v1 %s (%s) v2 %s (%s)", op.Kind, c1, r1.ErrText, c2, r2.ErrText)
	}
	if s1, s2 := w.v1.Snapshot(), w.v2.Snapshot(); s1 != s2 {
		return false, newFail("client states disagree", "after %s:\n--- v1\n%s--- v2\n%s", op.Kind, s1, s2)
	}
	// keep the guidance model in step; when it cannot follow, rebuild it from v1
	next := w.m.Clone()
	want := next.Apply(op)
	switch {
	case want.Weak || want.Spec || (want.Err == "") != (r1.Err == ""):
		w.resync()
	default:
		w.m = next
	}
	return r1.Err != "", nil
}

func resultHasEmptyLM(r model.Result) bool {
	if hasEmptyLM(r.Item) || hasEmptyLM(r.CondItem) {
		return true
	}
	for _, it := range r.Items {
		if hasEmptyLM(it) {
			return true
		}
	}
	return false
}

// resync rebuilds the guidance model's table contents from client v1.
func (w *diffWorld) resync() {
	for _, tn := range w.m.TableNames() {
		t := w.m.Tables[tn]
		r := w.v1.Apply(model.Op{Kind: "Scan", Table: tn})
		if r.Err != "" {
			continue
		}
		t.Items = map[string]model.Item{}
		for _, it := range r.Items {
			if k, ok := t.KeyOf(it); ok {
				t.Items[k] = it
			}
		}
	}
}

func replayDiff(raw json.RawMessage) *failure {
	var ops []model.Op
	if err := json.Unmarshal(raw, &ops); err != nil {
		return newFail("bad replay file", "%v", err)
	}
	w := newDiffWorld()
	for _, op := range ops {
		if _, f := w.do(op); f != nil {
			return f
		}
	}
	return nil
}

func init() { replayers["c17"] = replayDiff }

const ruleC17 = "rapid state machine over the surface both clients implement: table management (CreateTable with generated schemas and 0-2 indexes, AddIndex, DeleteIndex, DescribeTable, ClearTable, DeleteTable), single-item operations with generated conditions and updates (including failing ones: malformed keys, refused conditions, ill-typed updates, token-mutated expressions), Query / Scan with filters, Limits and ExclusiveStartKey continuation, BatchWrite, TransactWrite and failure toggles, translated to each SDK's request types. Oracle: differential, no reference model - after every abstract step the normalised responses (error class, items in order, counts, LastEvaluatedKey, unprocessed sets, table descriptions with per-index counts) of the v1 and the v2 client are equal and so are the canonical dumps of their internal tables. Refused UpdateTable calls (index name taken, sort key attribute undefined) that carry attribute definitions are among the steps. Non-trivial = history with >= 1 failing step and >= 1 read returning >= 2 items; distinct = hash of the operation list."

// TestC17 decides property C17.
func TestC17(t *testing.T) {
	st := stats.For("C17")
	st.SetRule(ruleC17)
	rapid.Check(t, func(rt *rapid.T) {
		w := newDiffWorld()
		s := drawSchema(rt, "tbl", schemaCfg{KeyTypes: []string{"S", "S", "N", "B"}, MaxIndexes: 2})
		o := avOpts(2, true)
		if open("F-V2EMPTY") {
			o.NoEmptyLM = true
		}
		g := newTgen(rt, s, o, rapid.IntRange(3, 7).Draw(rt, "poolSize"))
		g.maxAttrs = 3
		failing, bigReads := 0, 0
		fail := func(f *failure) {
			if f != nil {
				failCase(rt, "C17", "c17", f, w.Ops)
			}
		}
		defer func() {
			st.Case(failing >= 1 && bigReads >= 1, w.Ops)
			st.Step(int64(len(w.Ops)))
		}()
		var stepRaw func(op model.Op) model.Result
		step := func(op model.Op) model.Result { return stepRaw(normOp(op)) }
		// stepRaw: the request as drawn (a failing request may carry placeholders no expression uses)
		stepRaw = func(op model.Op) model.Result {
			if ids := guardOp(op, w.m, true); len(ids) > 0 {
				for _, id := range ids {
					st.Exclude(id)
				}
				return model.Result{}
			}
			pending("C17", "c17", append(append([]model.Op{}, w.Ops...), op))
			failed, f := w.do(op)
			fail(f)
			if failed {
				failing++
				st.Class("failing-" + op.Kind)
			}
			return model.Result{}
		}
		step(model.Op{Kind: "CreateTable", Schema: &s})
		step(model.Op{Kind: "CreateTable", Schema: sTable("tbl2", false)})
		lateIdx := 0
		rt.Repeat(map[string]func(*rapid.T){
			"put":    func(rt *rapid.T) { step(model.Op{Kind: "Put", Table: s.Table, Item: g.item(rt)}) },
			"put2":   func(rt *rapid.T) { step(model.Op{Kind: "Put", Table: s.Table, Item: g.item(rt)}) },
			"update": func(rt *rapid.T) { step(g.updateOp(rt, w.m, 10)) },
			"delete": func(rt *rapid.T) {
				step(model.Op{Kind: "Delete", Table: s.Table, Key: g.key(rt), ReturnOld: rapid.Bool().Draw(rt, "returnOld")})
			},
			"get":       func(rt *rapid.T) { step(model.Op{Kind: "Get", Table: s.Table, Key: g.key(rt)}) },
			"condWrite": func(rt *rapid.T) { step(g.condWriteOp(rt, w.m, false)) },
			"failing": func(rt *rapid.T) {
				if w.m.Tables[s.Table] == nil {
					rt.Skip("no table")
				}
				op, _ := g.failingOp(rt, w.m)
				stepRaw(op)
			},
			"read": func(rt *rapid.T) {
				if w.m.Tables[s.Table] == nil {
					rt.Skip("no table")
				}
				op := g.readOp(rt, w.m, 40)
				if rapid.Bool().Draw(rt, "withLimit") {
					op.Limit = rapid.IntRange(1, 4).Draw(rt, "limit")
				}
				// follow the pagination on both clients
				for page := 0; page < 8; page++ {
					opn := normOp(op)
					if ids := guardOp(opn, w.m, true); len(ids) > 0 {
						return
					}
					pending("C17", "c17", append(append([]model.Op{}, w.Ops...), opn))
					_, f := w.do(opn)
					fail(f)
					r := w.v1.Apply(opn)
					if len(r.Items) >= 2 {
						bigReads++
					}
					if len(r.LastKey) == 0 || r.Err != "" {
						break
					}
					op.StartKey = r.LastKey
				}
			},
			"batch": func(rt *rapid.T) {
				op := g.batchOp(rt, 8)
				if w.m.Tables["tbl2"] != nil && rapid.Bool().Draw(rt, "multiTable") {
					// second table with synthetic distinct keys: totals above and below 25
					n := rapid.SampledFrom([]int{1, 3, 12, 13, 17, 20, 25}).Draw(rt, "secondTableN")
					tb := model.TableBatch{Table: "tbl2"}
					for i := 0; i < n; i++ {
						tb.Reqs = append(tb.Reqs, model.WriteReq{Put: model.Item{"pk": model.Str(fmt.Sprintf("b%02d", i)), "v": model.Num("1")}})
					}
					if rapid.Bool().Draw(rt, "firstTableMany") {
						op.Batch[0].Reqs = nil
						for i := 0; i < 13; i++ {
							it := g.item(rt)
							a := g.s.KeyAttrs()[len(g.s.KeyAttrs())-1]
							switch g.s.Attrs[a] {
							case "N":
								it[a] = model.Num(fmt.Sprint(2000 + i))
							case "B":
								it[a] = model.Bin([]byte{byte(i + 1), 9})
							default:
								it[a] = model.Str(fmt.Sprintf("many-%02d", i))
							}
							op.Batch[0].Reqs = append(op.Batch[0].Reqs, model.WriteReq{Put: it})
						}
					}
					op.Batch = append(op.Batch, tb)
				}
				step(op)
			},
			"transact": func(rt *rapid.T) { step(model.Op{Kind: "TransactWrite"}) },
			"describe": func(rt *rapid.T) { step(model.Op{Kind: "DescribeTable", Table: s.Table}) },
			"toggle": func(rt *rapid.T) {
				if rapid.IntRange(0, 2).Draw(rt, "reallyToggle") != 0 {
					rt.Skip("toggle rarely")
				}
				f := rapid.SampledFrom([]string{"none", "none", "internal_server", "deprecated", "via-active", "via-deactive", "via-deactive"}).Draw(rt, "failure")
				switch f {
				case "via-active":
					step(model.Op{Kind: "SetFailure", Via: "active"})
				case "via-deactive":
					step(model.Op{Kind: "SetFailure", Via: "deactive"})
				default:
					step(model.Op{Kind: "SetFailure", Failure: f})
				}
			},
			"clear": func(rt *rapid.T) {
				if rapid.IntRange(0, 5).Draw(rt, "reallyClear") != 0 {
					rt.Skip("clear rarely")
				}
				step(model.Op{Kind: "ClearTable", Table: s.Table})
			},
			"addIndex": func(rt *rapid.T) {
				t := w.m.Tables[s.Table]
				if lateIdx >= 2 || t == nil {
					rt.Skip("enough late indexes")
				}
				lateIdx++
				ix := model.IndexSchema{Name: fmt.Sprintf("late%d", lateIdx), Global: true, Hash: rapid.SampledFrom([]string{"g1", "g2", "r1"}).Draw(rt, "lateHash")}
				attrs := map[string]string{}
				inUse := ix.Hash == t.Schema.Hash || ix.Hash == t.Schema.Range
				for _, x := range t.Schema.Indexes {
					inUse = inUse || x.Hash == ix.Hash || x.Range == ix.Hash
				}
				if ty, ok := t.Schema.Attrs[ix.Hash]; ok && inUse {
					attrs[ix.Hash] = ty
				} else {
					// not (or no longer) a key of anything: it may be declared afresh, with any type
					attrs[ix.Hash] = rapid.SampledFrom([]string{"S", "S", "N"}).Draw(rt, "lateHashType")
				}
				step(model.Op{Kind: "AddIndex", Table: s.Table, IndexSchema: &ix, IndexAttrs: attrs})
			},
			"refusedAddIndex": func(rt *rapid.T) {
				// an UpdateTable that is refused (the index name is taken, or a key attribute is undefined) although it
				// carries attribute definitions - a new attribute, or another type for one
				// that no key uses: whatever a client keeps of them, the other keeps too
				t := w.m.Tables[s.Table]
				if t == nil || rapid.IntRange(0, 3).Draw(rt, "reallyRefusedAddIndex") != 2 {
					return
				}
				var globals []model.IndexSchema
				for _, x := range t.Schema.Indexes {
					if x.Global {
						globals = append(globals, x)
					}
				}
				if len(globals) == 0 {
					return
				}
				ix := rapid.SampledFrom(globals).Draw(rt, "takenIx")
				a := rapid.SampledFrom([]string{"g1", "g2", "r1", "g3"}).Draw(rt, "refusedAttr")
				inUse := a == t.Schema.Hash || a == t.Schema.Range
				for _, x := range t.Schema.Indexes {
					inUse = inUse || x.Hash == a || x.Range == a
				}
				if inUse {
					return
				}
				nix := model.IndexSchema{Name: ix.Name, Global: true, Hash: a}
				if rapid.Bool().Draw(rt, "refusedForUndefinedRange") {
					// ... or refused because its sort key attribute is defined nowhere
					nix = model.IndexSchema{Name: "refused1", Global: true, Hash: a, Range: "nodef"}
				}
				step(model.Op{Kind: "AddIndex", Table: s.Table, IndexSchema: &nix, IndexAttrs: map[string]string{a: rapid.SampledFrom([]string{"S", "N"}).Draw(rt, "refusedAttrType")}})
			},
			"delIndex": func(rt *rapid.T) {
				t := w.m.Tables[s.Table]
				if t == nil || rapid.IntRange(0, 2).Draw(rt, "reallyDelIndex") != 1 {
					return
				}
				var globals []string
				for _, x := range t.Schema.Indexes {
					if x.Global {
						globals = append(globals, x.Name)
					}
				}
				if len(globals) == 0 {
					return
				}
				step(model.Op{Kind: "DeleteIndex", Table: s.Table, Index: rapid.SampledFrom(globals).Draw(rt, "delIx")})
				if lateIdx > 0 {
					lateIdx-- // the name may be used again
				}
			},
			"recreate": func(rt *rapid.T) {
				if rapid.IntRange(0, 7).Draw(rt, "reallyRecreate") != 0 {
					rt.Skip("recreate rarely")
				}
				step(model.Op{Kind: "DeleteTable", Table: s.Table})
				step(model.Op{Kind: "CreateTable", Schema: &s})
			},
		})
	})
}

// ---------------------------------------------------------------- C18: lifecycle over several clients and tables

type c18Step struct {
	Client int      `json:"client"`
	Op     model.Op `json:"op"`
}

type c18Case struct {
	Steps []c18Step `json:"steps"`
}

var c18Cfg = worldCfg{V1: true, V2: true, WhiteBox: true, IndexReads: true}

func runC18(c c18Case) *failure {
	ws := []*world{newWorld("C18", c18Cfg), newWorld("C18", c18Cfg)}
	for _, s := range c.Steps {
		if _, _, f := ws[s.Client].do(s.Op); f != nil {
			return f
		}
		for i, w := range ws {
			if f := w.check(); f != nil {
				f.Detail = fmt.Sprintf("client %d after a step on client %d: %s", i, s.Client, f.Detail)
				return f
			}
		}
	}
	return nil
}

func init() {
	replayers["c18"] = func(raw json.RawMessage) *failure {
		var c c18Case
		if err := json.Unmarshal(raw, &c); err != nil {
			return newFail("bad replay file", "%v", err)
		}
		return runC18(c)
	}
}

// drawLifecycleSchema draws valid and deliberately invalid table
// configurations; different tables reuse attribute names with different types.
func drawLifecycleSchema(rt *rapid.T, name string) model.Schema {
	s := drawSchema(rt, name, schemaCfg{KeyTypes: []string{"S", "N", "B"}, MaxIndexes: 3})
	switch rapid.IntRange(0, 11).Draw(rt, "invalidKind") {
	case 0:
		delete(s.Attrs, s.Hash) // hash key without attribute definition
	case 1:
		s.Hash = "" // no HASH element
	case 2:
		s.EmptyGSIList = true
	case 3:
		s.Billing, s.NoThroughput = "PROVISIONED", true
	case 4:
		if len(s.Indexes) > 0 {
			delete(s.Attrs, s.Indexes[0].Hash)
		}
	case 5:
		s.EmptyLSIList = true
	case 6:
		if s.Range != "" {
			delete(s.Attrs, s.Range)
		}
	}
	// SDK-level rules of the v1 client that every caller satisfies
	if s.Hash == "" && s.Range == "" {
		s.Range = "sk"
		if _, ok := s.Attrs["sk"]; !ok {
			s.Attrs["sk"] = "S"
		}
	}
	if len(s.Attrs) == 0 {
		s.Attrs["unused"] = "S"
	}
	return s
}

const ruleC18 = "rapid state machine over two independent clients of each SDK and up to three table names: CreateTable with generated configurations (billing modes, S/N/B key schemas, 0-3 global/local indexes, tables reusing attribute names with different declared types, and invalid ones: missing attribute definition, no hash key, empty index lists, missing provisioned throughput), the AddTable helper, DeleteTable, UpdateTable index creation / deletion, ClearTable, DescribeTable, interleaved with Put / Delete / Scan on every table; reference catalogue model per client: ResourceInUse on duplicate create, ResourceNotFound on a missing table or index, a new table is empty with the declared schema and indexes, descriptions report current item and per-index counts; after every step every table of every client is scanned (and every index read) and compared, so cross-table and cross-client leakage and resurrected contents are visible. One case in twenty also grows a table's index set to DynamoDB's quotas (1-5 local indexes, global indexes up to 20, the later ones created on the existing table), every creation being required to succeed and DescribeTable to list them all. Index names include ones whose order depends on letter case; a not-found / in-use error of the v2 client must be the SDK error type. Non-trivial = history with a delete-then-recreate of a non-empty table, or operations on >= 2 tables and both clients; distinct = hash of the step list."

// TestC18 decides property C18.
func TestC18(t *testing.T) {
	st := stats.For("C18")
	st.SetRule(ruleC18)
	rapid.Check(t, func(rt *rapid.T) {
		ws := []*world{newWorld("C18", c18Cfg), newWorld("C18", c18Cfg)}
		var c c18Case
		names := []string{"tblA", "tblB", "tblC"}
		gens := []map[string]*tgen{{}, {}}
		o := avOpts(1, true)
		recreatedNonEmpty := false
		deletedNonEmpty := map[string]bool{}
		usedClients, usedTables := map[int]bool{}, map[string]bool{}
		fail := func(f *failure) {
			if f != nil {
				failCase(rt, "C18", "c18", f, c)
			}
		}
		defer func() {
			st.Case(recreatedNonEmpty || len(usedClients) == 2 && len(usedTables) >= 2, c)
			st.Step(int64(len(c.Steps)))
			if recreatedNonEmpty {
				st.Class("delete-then-recreate-of-non-empty-table")
			}
		}()
		step := func(ci int, op model.Op) (model.Result, int) {
			w := ws[ci]
			before := len(w.Ops)
			pending("C18", "c18", c18Case{Steps: append(append([]c18Step{}, c.Steps...), c18Step{ci, op})})
			res, status, f := w.do(op)
			if len(w.Ops) > before {
				c.Steps = append(c.Steps, c18Step{ci, op})
			}
			fail(f)
			for i, x := range ws {
				if f := x.check(); f != nil {
					f.Detail = fmt.Sprintf("client %d after a step on client %d: %s", i, ci, f.Detail)
					fail(f)
				}
			}
			if status == stepDone {
				usedClients[ci] = true
				if op.Table != "" {
					usedTables[op.Table] = true
				}
			}
			return res, status
		}
		pick := func(rt *rapid.T) (int, string) {
			return rapid.IntRange(0, 1).Draw(rt, "client"), rapid.SampledFrom(names).Draw(rt, "table")
		}
		quotaDone := false
		rt.Repeat(map[string]func(*rapid.T){
			"indexQuota": func(rt *rapid.T) {
				// a table whose index set grows to DynamoDB's quotas: 1-5 local and up to
				// 20 global indexes, the later global ones created on the existing table
				if quotaDone || rapid.IntRange(0, 19).Draw(rt, "reallyQuota") != 11 {
					return
				}
				quotaDone = true
				ci := rapid.IntRange(0, 1).Draw(rt, "client")
				if ws[ci].m.Tables["tblQ"] != nil {
					return
				}
				s := model.Schema{Table: "tblQ", Hash: "pk", Range: "sk", Attrs: map[string]string{"pk": "S", "sk": "S"}, Billing: "PAY_PER_REQUEST"}
				nl := rapid.IntRange(1, 5).Draw(rt, "quotaLSIs")
				for i := 0; i < nl; i++ {
					a := fmt.Sprintf("l%d", i+1)
					s.Attrs[a] = "S"
					s.Indexes = append(s.Indexes, model.IndexSchema{Name: "lsi" + a, Hash: "pk", Range: a})
				}
				g0 := rapid.IntRange(0, 12).Draw(rt, "quotaInitialGSIs")
				gsi := func(i int) (model.IndexSchema, map[string]string) {
					a := fmt.Sprintf("q%d", i+1)
					return model.IndexSchema{Name: "gsi" + a, Hash: a, Global: true, NoThroughput: true}, map[string]string{a: "S"}
				}
				for i := 0; i < g0; i++ {
					ix, attrs := gsi(i)
					s.Attrs[ix.Hash] = attrs[ix.Hash]
					s.Indexes = append(s.Indexes, ix)
				}
				if _, status := step(ci, model.Op{Kind: "CreateTable", Schema: &s}); status != stepDone {
					return
				}
				step(ci, model.Op{Kind: "Put", Table: "tblQ", Item: model.Item{"pk": model.Str("a"), "sk": model.Str("b"), "l1": model.Str("x"), "q1": model.Str("y"), "q20": model.Str("z")}})
				for i := g0; i < model.MaxGSI; i++ {
					ix, attrs := gsi(i)
					step(ci, model.Op{Kind: "AddIndex", Table: "tblQ", IndexSchema: &ix, IndexAttrs: attrs})
				}
				step(ci, model.Op{Kind: "DescribeTable", Table: "tblQ"})
				st.Class("index-set-grown-to-the-quotas")
			},
			"create": func(rt *rapid.T) {
				ci, tn := pick(rt)
				s := drawLifecycleSchema(rt, tn)
				if rapid.IntRange(0, 5).Draw(rt, "viaAddTable") == 0 {
					s = model.Schema{Table: tn, Hash: "pk", Attrs: map[string]string{"pk": "S"}, Billing: "PAY_PER_REQUEST", ViaAddTable: true}
					if rapid.Bool().Draw(rt, "addTableRange") {
						s.Range = "sk"
						s.Attrs["sk"] = "S"
					}
				}
				existed := ws[ci].m.Tables[tn] != nil
				res, status := step(ci, model.Op{Kind: "CreateTable", Schema: &s})
				if status == stepDone && res.Err == "" {
					gens[ci][tn] = newTgen(rt, ws[ci].m.Tables[tn].Schema, o, 4)
					gens[ci][tn].maxAttrs = 2
					if deletedNonEmpty[fmt.Sprint(ci, tn)] {
						recreatedNonEmpty = true
					}
				}
				if status == stepDone && existed {
					st.Class("duplicate-create")
				}
				if status == stepDone && res.Err == model.ErrValidation {
					st.Class("invalid-configuration-rejected")
				}
			},
			"deleteTable": func(rt *rapid.T) {
				ci, tn := pick(rt)
				t := ws[ci].m.Tables[tn]
				nonEmpty := t != nil && len(t.Items) > 0
				res, status := step(ci, model.Op{Kind: "DeleteTable", Table: tn})
				if status == stepDone && res.Err == "" {
					delete(gens[ci], tn)
					if nonEmpty {
						deletedNonEmpty[fmt.Sprint(ci, tn)] = true
					}
				}
				if status == stepDone && res.Err == model.ErrNotFound {
					st.Class("operation-on-missing-table")
				}
			},
			"describe": func(rt *rapid.T) {
				ci, tn := pick(rt)
				step(ci, model.Op{Kind: "DescribeTable", Table: tn})
			},
			"clear": func(rt *rapid.T) {
				ci, tn := pick(rt)
				step(ci, model.Op{Kind: "ClearTable", Table: tn})
			},
			"put": func(rt *rapid.T) {
				ci, tn := pick(rt)
				g := gens[ci][tn]
				if g == nil {
					step(ci, model.Op{Kind: "Put", Table: tn, Item: model.Item{"pk": model.Str("x")}})
					return
				}
				step(ci, model.Op{Kind: "Put", Table: tn, Item: g.item(rt)})
			},
			"put2": func(rt *rapid.T) {
				ci, tn := pick(rt)
				if g := gens[ci][tn]; g != nil {
					step(ci, model.Op{Kind: "Put", Table: tn, Item: g.item(rt)})
				}
			},
			"delete": func(rt *rapid.T) {
				ci, tn := pick(rt)
				if g := gens[ci][tn]; g != nil {
					step(ci, model.Op{Kind: "Delete", Table: tn, Key: g.key(rt)})
				}
			},
			"scan": func(rt *rapid.T) {
				ci, tn := pick(rt)
				step(ci, model.Op{Kind: "Scan", Table: tn})
			},
			"get": func(rt *rapid.T) {
				ci, tn := pick(rt)
				if g := gens[ci][tn]; g != nil {
					step(ci, model.Op{Kind: "Get", Table: tn, Key: g.key(rt)})
				}
			},
			"batchGet": func(rt *rapid.T) {
				// (a batch read resolves its tables like every other call: a table re-created
				// under the same name is the new one)
				ci, tn := pick(rt)
				g := gens[ci][tn]
				if g == nil {
					return
				}
				seen := map[string]bool{}
				var keys []model.Item
				for i, n := 0, rapid.IntRange(1, 3).Draw(rt, "batchGetKeys"); i < n; i++ {
					k := g.key(rt)
					if ck := model.CanonItem(k); !seen[ck] {
						seen[ck] = true
						keys = append(keys, k)
					}
				}
				step(ci, model.Op{Kind: "BatchGet", Batch: []model.TableBatch{{Table: tn, Keys: keys}}})
			},
			"addIndex": func(rt *rapid.T) {
				ci, tn := pick(rt)
				t := ws[ci].m.Tables[tn]
				ix := model.IndexSchema{Name: rapid.SampledFrom([]string{"late1", "Late2", "idx1", "ByShape", "by-color"}).Draw(rt, "ixName") /* names whose order depends on letter case */, Global: true,
					Hash: rapid.SampledFrom([]string{"g1", "g2", "r1"}).Draw(rt, "ixHash")}
				attrs := map[string]string{ix.Hash: "S"}
				if rapid.IntRange(0, 2).Draw(rt, "ixWithRange") == 1 {
					// a composite key: stored items may hold one of the two attributes only
					ix.Range = rapid.SampledFrom([]string{"g1", "g2", "r1", "r2"}).Filter(func(a string) bool { return a != ix.Hash }).Draw(rt, "ixRange")
					attrs[ix.Range] = "S"
				}
				retyped := map[string]bool{}
				if t != nil {
					inUse := map[string]bool{t.Schema.Hash: true, t.Schema.Range: true}
					for _, x := range t.Schema.Indexes {
						inUse[x.Hash], inUse[x.Range] = true, true
					}
					for _, a := range []string{ix.Hash, ix.Range} {
						if ty, ok := t.Schema.Attrs[a]; ok && a != "" {
							attrs[a] = ty
							// an attribute that no key uses any more (its index was deleted) may be
							// declared afresh with another type: the old definition is gone
							if !inUse[a] && rapid.IntRange(0, 2).Draw(rt, "ixRetype") == 1 {
								attrs[a] = map[string]string{"S": "N", "N": "S", "B": "S"}[ty]
								retyped[a] = true
							}
						}
					}
					if rapid.IntRange(0, 3).Draw(rt, "ixNoThroughput") == 0 {
						ix.NoThroughput = true
					}
					if rapid.IntRange(0, 5).Draw(rt, "ixUndefined") == 0 {
						attrs = map[string]string{}
						if _, ok := t.Schema.Attrs[ix.Hash]; ok {
							attrs = map[string]string{ix.Hash: t.Schema.Attrs[ix.Hash]}
						}
					}
				}
				res, status := step(ci, model.Op{Kind: "AddIndex", Table: tn, IndexSchema: &ix, IndexAttrs: attrs})
				if status == stepDone && res.Err == "" && gens[ci][tn] != nil {
					g := gens[ci][tn]
					g.s = ws[ci].m.Tables[tn].Schema
					for a := range retyped {
						if g.s.Attrs[a] == attrs[a] {
							delete(g.ixVals, a) // values of the new type from now on
							st.Class("index-key-attribute-declared-afresh-with-another-type")
						}
					}
					for _, a := range []string{ix.Hash, ix.Range} {
						if _, ok := g.ixVals[a]; !ok && a != "" && a != g.s.Hash && a != g.s.Range {
							for i := 0; i < 2; i++ {
								g.ixVals[a] = append(g.ixVals[a], drawKeyValue(rt, g.s.Attrs[a], o, "lateIxVal"))
							}
						}
					}
				}
			},
			"delIndex": func(rt *rapid.T) {
				ci, tn := pick(rt)
				name := rapid.SampledFrom([]string{"late1", "Late2", "idx1", "ByShape", "by-color", "idx2", "nosuch", "late2"}).Draw(rt, "delIx")
				if t := ws[ci].m.Tables[tn]; t != nil {
					// mostly an index that exists
					var globals []string
					for _, ix := range t.Schema.Indexes {
						if ix.Global {
							globals = append(globals, ix.Name)
						}
					}
					if len(globals) > 0 && rapid.IntRange(0, 2).Draw(rt, "delExistingIx") > 0 {
						name = rapid.SampledFrom(globals).Draw(rt, "delIxExisting")
					}
				}
				res, status := step(ci, model.Op{Kind: "DeleteIndex", Table: tn, Index: name})
				if status == stepDone && res.Err == "" && gens[ci][tn] != nil {
					gens[ci][tn].s = ws[ci].m.Tables[tn].Schema
				}
			},
		})
	})
}

// ---------------------------------------------------------------- C19: batches vs their decomposition

type c19Case struct {
	Setup []model.Op `json:"setup"`
	Batch model.Op   `json:"batch"`
}

func runC19(c c19Case, st *stats.Collector) *failure {
	cfg := worldCfg{V1: true, V2: true, WhiteBox: true, IndexReads: true}
	wb, ws := newWorld("C19", cfg), newWorld("C19", cfg)
	for _, op := range c.Setup {
		for _, w := range []*world{wb, ws} {
			if _, _, f := w.do(op); f != nil {
				return f
			}
		}
	}
	if wb.diverged || ws.diverged {
		// the history contained a request DynamoDB rejects and the implementation
		// accepted it: the reference model cannot follow, the case ends here
		return nil
	}
	if c.Batch.Kind == "BatchGet" {
		res, status, f := wb.do(c.Batch)
		if f != nil || status != stepDone {
			return f
		}
		// per table: the returned multiset equals the individual GetItem results
		d := wb.ds[len(wb.ds)-1] // v2
		got := d.Apply(c.Batch)
		var single []string
		for _, tb := range c.Batch.Batch {
			for _, k := range tb.Keys {
				g := d.Apply(model.Op{Kind: "Get", Table: tb.Table, Key: k})
				if g.Err != "" {
					return newFail("individual get failed", "%s", g.ErrText)
				}
				if len(g.Item) > 0 {
					single = append(single, tb.Table+" item "+model.CanonItem(g.Item))
				}
			}
		}
		sort.Strings(single)
		if !sameStrings(single, batchCanon(got.Responses)) {
			return newFail("batch get differs from individual gets", "batch %v individual %v", batchCanon(got.Responses), single)
		}
		_ = res
		return nil
	}
	dup := batchHasDuplicateKey(ws.m, c.Batch)
	if dup {
		// DynamoDB rejects a batch that names one key twice. An implementation
		// that accepts it is held to the statement as written: the tables end up
		// as after the individual requests, in the order given. The model does
		// not follow the batch world here.
		b := c.Batch
		b.Blind = true
		r, _, f := wb.do(b)
		if f != nil {
			return f
		}
		if r.Err != "" || len(r.Unprocessed) != 0 {
			return nil
		}
		if st != nil {
			st.Class("accepted-batch-naming-one-key-twice")
		}
	} else {
		res, status, f := wb.do(c.Batch)
		if f != nil {
			return f
		}
		if status != stepDone || res.Err != "" {
			return nil
		}
		if len(res.Unprocessed) != 0 {
			return nil
		}
	}
	for _, tb := range c.Batch.Batch {
		for _, r := range tb.Reqs {
			var op model.Op
			if r.Put != nil {
				op = model.Op{Kind: "Put", Table: tb.Table, Item: r.Put}
			} else {
				op = model.Op{Kind: "Delete", Table: tb.Table, Key: r.Delete}
			}
			if _, _, f := ws.do(op); f != nil {
				return f
			}
		}
	}
	for i := range wb.ds {
		if a, b := wb.ds[i].Snapshot(), ws.ds[i].Snapshot(); a != b {
			return newFail("batch differs from its decomposition", "%s:\n--- after the batch\n%s--- after the individual calls\n%s", wb.ds[i].Name(), a, b)
		}
	}
	if !dup {
		if f := wb.check(); f != nil {
			return f
		}
	}
	return ws.check()
}

// batchHasDuplicateKey reports whether a BatchWrite names one key of one table twice.
func batchHasDuplicateKey(db *model.DB, op model.Op) bool {
	seen := map[string]bool{}
	for _, tb := range op.Batch {
		t := db.Tables[tb.Table]
		if t == nil {
			continue
		}
		for _, r := range tb.Reqs {
			it := r.Put
			if it == nil {
				it = r.Delete
			}
			k, ok := t.KeyOf(it)
			if !ok {
				continue
			}
			if seen[tb.Table+"\x00"+k] {
				return true
			}
			seen[tb.Table+"\x00"+k] = true
		}
	}
	return false
}

func init() {
	replayers["c19"] = func(raw json.RawMessage) *failure {
		var c c19Case
		if err := json.Unmarshal(raw, &c); err != nil {
			return newFail("bad replay file", "%v", err)
		}
		return runC19(c, nil)
	}
}

const ruleC19 = "rapid: a state built by a short history (Put, UpdateItem, DeleteItem, BatchGetItem, ClearTable, refused batches) on 1-3 tables (0-2 indexes each), then one BatchWriteItem (1-25 requests, mixed puts and deletes, several tables, keys present and absent; batches above 20 requests generated with fixed weight; in a fifth of the cases a key may be named twice - DynamoDB rejects those, an implementation that accepts one is compared with the individual requests in the order given) or one BatchGetItem (1-15 present and absent keys per table, several tables, some with a projection and name placeholders of their own, sometimes filled up to 60 / 99 / exactly 100 keys, the service limit). In a third of the cases the same request object is sent twice (the retry a caller performs; puts and deletes are idempotent) and the second response is the one compared. Oracle: twin-client differential - one pair of clients executes the batch, a second pair the same requests as individual PutItem / DeleteItem calls; the canonical internal dumps (tables and every index) must be equal, the reference model agrees with both, UnprocessedItems is empty; BatchGetItem responses equal, per table, the multiset of individual GetItem results for keys that exist, and (unless the open finding F-BGUNPROC applies) absent keys are not reported as unprocessed. Non-trivial = batch over >= 2 tables, or with a delete of a present key, or a BatchGet with an absent key; distinct = hash of (setup, batch)."

// TestC19 decides property C19.
func TestC19(t *testing.T) {
	st := stats.For("C19")
	st.SetRule(ruleC19)
	rapid.Check(t, func(rt *rapid.T) {
		w := newWorld("C19", worldCfg{V1: true, V2: true})
		nt := rapid.IntRange(1, 3).Draw(rt, "nTables")
		o := avOpts(1, true)
		var gens []*tgen
		for i := 0; i < nt; i++ {
			s := drawSchema(rt, fmt.Sprintf("tbl%d", i+1), schemaCfg{KeyTypes: []string{"S", "S", "N"}, MaxIndexes: 2})
			if _, _, f := w.do(model.Op{Kind: "CreateTable", Schema: &s}); f != nil {
				failCase(rt, "C19", "history:C19", f, w.asCase())
			}
			g := newTgen(rt, s, o, rapid.IntRange(4, 30).Draw(rt, "poolSize"))
			g.maxAttrs = 2
			// number keys that are one number to float64 arithmetic: a batch holds requests
			// for several of them (no update expressions on such a table)
			if (s.Attrs[s.Hash] == "N" || s.Range != "" && s.Attrs[s.Range] == "N") && rapid.IntRange(0, 2).Draw(rt, "bigNumberKeys") == 1 {
				g.useBigNumberKeys(rt)
				st.Class("tables-with-number-keys-beyond-float64")
			}
			gens = append(gens, g)
		}
		nw := rapid.IntRange(0, 10).Draw(rt, "setupWrites")
		for i := 0; i < nw; i++ {
			g := rapid.SampledFrom(gens).Draw(rt, "setupTable")
			op := model.Op{Kind: "Put", Table: g.s.Table, Item: g.item(rt)}
			// the history before the batch also reads in batches, updates, deletes and clears
			switch rapid.IntRange(0, 11).Draw(rt, "setupKind") {
			case 3:
				if !g.bigNums {
					op = normOp(g.updateOp(rt, w.m, 0))
				}
			case 5:
				op = model.Op{Kind: "Delete", Table: g.s.Table, Key: g.key(rt)}
			case 7, 8:
				tb := model.TableBatch{Table: g.s.Table}
				seen := map[string]bool{}
				for j, n := 0, rapid.IntRange(1, 6).Draw(rt, "setupBgN"); j < n; j++ {
					k := g.key(rt)
					if ck := model.CanonItem(k); !seen[ck] {
						seen[ck] = true
						tb.Keys = append(tb.Keys, k)
					}
				}
				op = model.Op{Kind: "BatchGet", Batch: []model.TableBatch{tb}}
			case 10:
				op = model.Op{Kind: "ClearTable", Table: g.s.Table}
			case 1:
				// a batch that is refused as a whole (valid requests beside one bad one)
				g.failClasses = []string{"batch-bad-key", "batch-index-key-type", "batch-unknown-table"}
				op, _ = g.failingOp(rt, w.m)
				op.TrySpec = true
			}
			if _, _, f := w.do(op); f != nil {
				failCase(rt, "C19", "history:C19", f, w.asCase())
			}
		}
		c := c19Case{Setup: w.Ops}
		multiTable, delPresent, absentGet := false, false, false
		if rapid.IntRange(0, 9).Draw(rt, "batchGet") < 3 {
			op := model.Op{Kind: "BatchGet"}
			for _, g := range gens {
				if rapid.IntRange(0, 2).Draw(rt, "includeTable") == 0 && len(op.Batch) > 0 {
					continue
				}
				tb := model.TableBatch{Table: g.s.Table}
				seen := map[string]bool{}
				n := rapid.IntRange(1, 15).Draw(rt, "bgN")
				for i := 0; i < n; i++ {
					k := g.key(rt)
					if ck := model.CanonItem(k); !seen[ck] {
						seen[ck] = true
						tb.Keys = append(tb.Keys, k)
						if stored(w.m, g.s.Table, k) == nil {
							absentGet = true
						}
					}
				}
				if rapid.IntRange(0, 2).Draw(rt, "bgProjection") == 1 {
					// a projection with a name placeholder of its own (every name is used)
					tb.Projection, tb.Names = "#p, "+g.s.Hash, map[string]string{"#p": "a"}
				}
				op.Batch = append(op.Batch, tb)
			}
			// sometimes fill the request up to (at most) the 100-key service limit
			if fill := rapid.SampledFrom([]int{0, 0, 0, 60, 99, 100}).Draw(rt, "fillTo"); fill > 0 {
				total := 0
				for _, tb := range op.Batch {
					total += len(tb.Keys)
				}
				g := gens[0]
				a := g.s.KeyAttrs()[len(g.s.KeyAttrs())-1]
				for i := 0; total < fill; i++ {
					k := g.key(rt)
					switch g.s.Attrs[a] {
					case "N":
						k[a] = model.Num(fmt.Sprint(5000 + i))
					case "B":
						k[a] = model.Bin([]byte{byte(i + 1), 11})
					default:
						k[a] = model.Str(fmt.Sprintf("fill-%03d", i))
					}
					op.Batch[0].Keys = append(op.Batch[0].Keys, k)
					total++
				}
				absentGet = true
			}
			multiTable = len(op.Batch) >= 2
			op.Consistent = rapid.Bool().Draw(rt, "consistentRead")
			c.Batch = op
		} else {
			op := model.Op{Kind: "BatchWrite"}
			total := rapid.SampledFrom([]int{1, 2, 3, 5, 8, 12, 13, 16, 20, 21, 22, 24, 25}).Draw(rt, "batchTotal")
			left := total
			// a fifth of the batches may name a key more than once (DynamoDB
			// rejects those; an implementation that accepts them must apply the
			// requests in the order given)
			dups := rapid.IntRange(0, 4).Draw(rt, "allowDuplicateKeys") == 0
			// large batches mostly go to one table: truncation defects only show there
			concentrate := !dups && total > 12 && rapid.IntRange(0, 3).Draw(rt, "concentrate") > 0
			for gi, g := range gens {
				if left <= 0 {
					break
				}
				n := left
				if gi < len(gens)-1 && !concentrate {
					n = rapid.IntRange(0, left).Draw(rt, "perTable")
				}
				tb := model.TableBatch{Table: g.s.Table}
				seen := map[string]bool{}
				for i := 0; i < n; i++ {
					it := g.item(rt)
					if concentrate {
						// many distinct keys: synthetic, unique per request
						a := g.s.KeyAttrs()[len(g.s.KeyAttrs())-1]
						switch g.s.Attrs[a] {
						case "N":
							it[a] = model.Num(fmt.Sprint(1000 + i))
						case "B":
							it[a] = model.Bin([]byte{byte(i + 1), 7})
						default:
							it[a] = model.Str(fmt.Sprintf("key-%02d", i))
						}
					}
					k := model.Item{}
					for _, a := range g.s.KeyAttrs() {
						k[a] = it[a]
					}
					ck := model.CanonItem(k)
					if seen[ck] && !dups {
						continue
					}
					seen[ck] = true
					if rapid.IntRange(0, 2).Draw(rt, "isDelete") == 0 {
						tb.Reqs = append(tb.Reqs, model.WriteReq{Delete: k})
						if stored(w.m, g.s.Table, k) != nil {
							delPresent = true
						}
					} else {
						tb.Reqs = append(tb.Reqs, model.WriteReq{Put: it})
					}
				}
				left -= len(tb.Reqs)
				if len(tb.Reqs) > 0 {
					op.Batch = append(op.Batch, tb)
				}
			}
			if len(op.Batch) == 0 {
				return
			}
			multiTable = len(op.Batch) >= 2
			c.Batch = op
		}
		if ids := guardOp(c.Batch, w.m, true); len(ids) > 0 {
			for _, id := range ids {
				st.Exclude(id)
			}
			return
		}
		c.Batch.Repeat = rapid.IntRange(0, 2).Draw(rt, "sameRequestObjectTwice") == 0
		pending("C19", "c19", c)
		if c.Batch.Repeat {
			st.Class("same-request-object-sent-twice")
		}
		n := 0
		for _, tb := range c.Batch.Batch {
			n += len(tb.Reqs) + len(tb.Keys)
		}
		st.Case(multiTable || delPresent || absentGet, c)
		st.Class(c.Batch.Kind)
		if n > 20 {
			st.Class("more-than-20-requests")
		}
		if multiTable {
			st.Class("several-tables")
		}
		if absentGet {
			st.Class("batch-get-with-absent-key")
		}
		if f := runC19(c, st); f != nil {
			failCase(rt, "C19", "c19", f, c)
		}
	})
}

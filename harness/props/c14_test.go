package props

import (
	"context"
	"encoding/json"
	"errors"
	"fmt"
	"sort"
	"testing"

	"github.com/aws/aws-sdk-go-v2/aws"
	ddb2 "github.com/aws/aws-sdk-go-v2/service/dynamodb"
	types2 "github.com/aws/aws-sdk-go-v2/service/dynamodb/types"
	aws1 "github.com/aws/aws-sdk-go/aws"
	ddb1 "github.com/aws/aws-sdk-go/service/dynamodb"
	"pgregory.net/rapid"

	"github.com/truora/minidyn/interpreter/language"
	mtypes "github.com/truora/minidyn/types"

	"verifharness/drv"
	"verifharness/gen"
	"verifharness/model"
	"verifharness/stats"
)

// c14Case: an item, a client, a scenario and a poke mask (one decision per
// mutable location in traversal order; exhausted mask = poke).
type c14Case struct {
	Client   string     `json:"client"`
	Scenario string     `json:"scenario"`
	Item     model.Item `json:"item"`
	Mask     []bool     `json:"mask"`
}

type picker struct {
	mask []bool
	i    int
	n    int
}

func (p *picker) pick() bool {
	v := true
	if p.i < len(p.mask) {
		v = p.mask[p.i]
	}
	p.i++
	if v {
		p.n++
	}
	return v
}

// pokeV1 mutates every selected mutable location of an SDK v1 value.
func pokeV1(av *ddb1.AttributeValue, p *picker) {
	if av == nil {
		return
	}
	if av.S != nil && p.pick() {
		*av.S = *av.S + "~poked"
	}
	if av.N != nil && p.pick() {
		*av.N = "424242"
	}
	if av.BOOL != nil && p.pick() {
		*av.BOOL = !*av.BOOL
	}
	if av.NULL != nil && p.pick() {
		*av.NULL = !*av.NULL
	}
	if len(av.B) > 0 && p.pick() {
		av.B[0] ^= 0xff
	}
	for _, s := range av.SS {
		if s != nil && p.pick() {
			*s = *s + "~poked"
		}
	}
	if len(av.SS) > 0 && p.pick() {
		av.SS[0] = aws1.String("replaced")
	}
	for _, s := range av.NS {
		if s != nil && p.pick() {
			*s = "424242"
		}
	}
	for _, b := range av.BS {
		if len(b) > 0 && p.pick() {
			b[0] ^= 0xff
		}
	}
	for i, e := range av.L {
		pokeV1(e, p)
		if p.pick() {
			av.L[i] = &ddb1.AttributeValue{S: aws1.String("replaced")}
		}
	}
	if av.M != nil {
		pokeV1Map(av.M, p)
	}
}

func pokeV1Map(m map[string]*ddb1.AttributeValue, p *picker) {
	keys := make([]string, 0, len(m))
	for k := range m {
		keys = append(keys, k)
	}
	sort.Strings(keys)
	for _, k := range keys {
		if k == "pk" {
			continue
		}
		pokeV1(m[k], p)
		if p.pick() {
			delete(m, k)
		}
	}
	if p.pick() {
		m["injected"] = &ddb1.AttributeValue{S: aws1.String("x")}
	}
}

// pokeV2 mutates every selected mutable location of an SDK v2 value.
func pokeV2(av types2.AttributeValue, p *picker) {
	switch x := av.(type) {
	case *types2.AttributeValueMemberS:
		if p.pick() {
			x.Value += "~poked"
		}
	case *types2.AttributeValueMemberN:
		if p.pick() {
			x.Value = "424242"
		}
	case *types2.AttributeValueMemberBOOL:
		if p.pick() {
			x.Value = !x.Value
		}
	case *types2.AttributeValueMemberNULL:
		if p.pick() {
			x.Value = !x.Value
		}
	case *types2.AttributeValueMemberB:
		if len(x.Value) > 0 && p.pick() {
			x.Value[0] ^= 0xff
		}
	case *types2.AttributeValueMemberSS:
		for i := range x.Value {
			if p.pick() {
				x.Value[i] += "~poked"
			}
		}
	case *types2.AttributeValueMemberNS:
		for i := range x.Value {
			if p.pick() {
				x.Value[i] = "424242"
			}
		}
	case *types2.AttributeValueMemberBS:
		for _, b := range x.Value {
			if len(b) > 0 && p.pick() {
				b[0] ^= 0xff
			}
		}
	case *types2.AttributeValueMemberL:
		for i, e := range x.Value {
			pokeV2(e, p)
			if p.pick() {
				x.Value[i] = &types2.AttributeValueMemberS{Value: "replaced"}
			}
		}
	case *types2.AttributeValueMemberM:
		pokeV2Map(x.Value, p)
	}
}

func pokeV2Map(m map[string]types2.AttributeValue, p *picker) {
	keys := make([]string, 0, len(m))
	for k := range m {
		keys = append(keys, k)
	}
	sort.Strings(keys)
	for _, k := range keys {
		if k == "pk" {
			continue
		}
		pokeV2(m[k], p)
		if p.pick() {
			delete(m, k)
		}
	}
	if p.pick() {
		m["injected"] = &types2.AttributeValueMemberS{Value: "x"}
	}
}

// appendV1 / appendV2 append to every selected byte slice of a value without
// keeping the result: the bytes land in the slice's spare capacity, which the
// caller owns only if the library handed out exactly-sized copies.
var appendTail = []byte{0xEE, 0xEE, 0xEE, 0xEE, 0xEE, 0xEE, 0xEE, 0xEE}

func appendV1(av *ddb1.AttributeValue, p *picker) {
	if av == nil {
		return
	}
	if av.B != nil && p.pick() {
		_ = append(av.B, appendTail...)
	}
	for _, b := range av.BS {
		if p.pick() {
			_ = append(b, appendTail...)
		}
	}
	for _, e := range av.L {
		appendV1(e, p)
	}
	for _, k := range sortedKeysV1(av.M) {
		appendV1(av.M[k], p)
	}
}

func sortedKeysV1(m map[string]*ddb1.AttributeValue) []string {
	keys := make([]string, 0, len(m))
	for k := range m {
		keys = append(keys, k)
	}
	sort.Strings(keys)
	return keys
}

func appendV2(av types2.AttributeValue, p *picker) {
	switch x := av.(type) {
	case *types2.AttributeValueMemberB:
		if p.pick() {
			_ = append(x.Value, appendTail...)
		}
	case *types2.AttributeValueMemberBS:
		for _, b := range x.Value {
			if p.pick() {
				_ = append(b, appendTail...)
			}
		}
	case *types2.AttributeValueMemberL:
		for _, e := range x.Value {
			appendV2(e, p)
		}
	case *types2.AttributeValueMemberM:
		keys := make([]string, 0, len(x.Value))
		for k := range x.Value {
			keys = append(keys, k)
		}
		sort.Strings(keys)
		for _, k := range keys {
			appendV2(x.Value[k], p)
		}
	}
}

// pokeTypes mutates every selected mutable location of a minidyn types.Item
// (the v1 client hands its own ConditionalCheckFailedException to the caller).
func pokeTypes(av *mtypes.Item, p *picker) {
	if av == nil {
		return
	}
	if av.S != nil && p.pick() {
		*av.S = *av.S + "~poked"
	}
	if av.N != nil && p.pick() {
		*av.N = "424242"
	}
	if av.BOOL != nil && p.pick() {
		*av.BOOL = !*av.BOOL
	}
	if av.NULL != nil && p.pick() {
		*av.NULL = !*av.NULL
	}
	if len(av.B) > 0 && p.pick() {
		av.B[0] ^= 0xff
	}
	for _, s := range av.SS {
		if s != nil && p.pick() {
			*s = *s + "~poked"
		}
	}
	for _, s := range av.NS {
		if s != nil && p.pick() {
			*s = "424242"
		}
	}
	for _, b := range av.BS {
		if len(b) > 0 && p.pick() {
			b[0] ^= 0xff
		}
	}
	for i, e := range av.L {
		pokeTypes(e, p)
		if p.pick() {
			r := "replaced"
			av.L[i] = &mtypes.Item{S: &r}
		}
	}
	if av.M != nil {
		pokeTypesMap(av.M, p)
	}
}

func pokeTypesMap(m map[string]*mtypes.Item, p *picker) {
	keys := make([]string, 0, len(m))
	for k := range m {
		keys = append(keys, k)
	}
	sort.Strings(keys)
	for _, k := range keys {
		if k == "pk" {
			continue
		}
		pokeTypes(m[k], p)
		if p.pick() {
			delete(m, k)
		}
	}
	if p.pick() {
		x := "x"
		m["injected"] = &mtypes.Item{S: &x}
	}
}

// c14Neighbour: the item written after the output was handed out.
func c14Neighbour() model.Item {
	return model.Item{"pk": model.Str("neighbour"), "b": model.Bin([]byte("cccc")), "bs": model.BinSet([]byte("dddd"), []byte("ee")),
		"doc": model.Map(map[string]model.AV{"raw": model.Bin([]byte("ffffffff"))})}
}

var c14Scenarios = []string{"input-after-put", "output-of-get", "output-of-scan", "output-of-query", "update-values-and-output", "kept-output-vs-later-write", "batch-write-input", "delete-old-output", "condition-failure-item",
	"last-evaluated-key", "upsert-key-input", "native-updater-values", "append-to-output-after-later-write", "native-upsert-key-input", "delete-old-output-after-update", "last-evaluated-key-strings", "empty-results"}

// c14BinTable: a table whose key attributes are binary (mutable byte slices).
func c14BinTable() *model.Schema {
	return &model.Schema{Table: "tblb", Hash: "pk", Range: "sk", Attrs: map[string]string{"pk": "B", "sk": "B"}, Billing: "PAY_PER_REQUEST"}
}

// c14BinItems: three items of one partition of c14BinTable carrying the case's attributes.
func c14BinItems(attrs model.Item) []model.Item {
	var out []model.Item
	for i := 0; i < 3; i++ {
		it := model.CloneItem(attrs)
		it["pk"] = model.Bin([]byte{1, 2})
		it["sk"] = model.Bin([]byte{0, byte(i + 1)})
		out = append(out, it)
	}
	return out
}

// c14KeyTable / c14KeyItems: the table of the LastEvaluatedKey scenarios, with
// binary keys or with a string hash key and a number sort key.
func c14KeyTable(scenario string) *model.Schema {
	if scenario == "last-evaluated-key-strings" {
		return &model.Schema{Table: "tblb", Hash: "pk", Range: "sk", Attrs: map[string]string{"pk": "S", "sk": "N"}, Billing: "PAY_PER_REQUEST"}
	}
	return c14BinTable()
}

func c14KeyItems(scenario string, attrs model.Item) []model.Item {
	if scenario != "last-evaluated-key-strings" {
		return c14BinItems(attrs)
	}
	var out []model.Item
	for i := 0; i < 3; i++ {
		it := model.CloneItem(attrs)
		it["pk"] = model.Str("partition")
		it["sk"] = model.Num(fmt.Sprint(i + 1))
		out = append(out, it)
	}
	return out
}

// c14StoringUpdater is the kind of native updater the README shows: it stores
// the attribute values it is handed.
func c14StoringUpdater(item map[string]*mtypes.Item, attrs map[string]*mtypes.Item) {
	item["st"] = attrs[":s"]
	item["doc"] = attrs[":d"]
}

var c14UpdaterValues = model.Item{":s": model.Str("running"), ":d": model.Map(map[string]model.AV{"k": model.Str("v"), "ss": model.StrSet("x", "y"), "l": model.List(model.Num("1"), model.Bin([]byte{1, 2}))})}

func singletonsIntact() *failure {
	if !language.TRUE.Value || language.FALSE.Value || !language.UNDEFINED.IsUndefined {
		return newFail("interpreter singletons modified", "TRUE=%v FALSE=%v UNDEFINED.IsUndefined=%v", language.TRUE.Value, language.FALSE.Value, language.UNDEFINED.IsUndefined)
	}
	return nil
}

func restoreSingletons() {
	language.TRUE.Value, language.FALSE.Value, language.UNDEFINED.IsUndefined = true, false, true
}

func runC14(c c14Case, pokes *int) (fl *failure) {
	defer restoreSingletons()
	defer func() {
		if r := recover(); r != nil {
			fl = newFail("runtime panic", "C14 %s %s: %v", c.Client, c.Scenario, r)
		}
	}()
	p := &picker{mask: c.Mask}
	defer func() {
		if pokes != nil {
			*pokes = p.n
		}
	}()
	key := model.Item{"pk": model.Str("the-key")}
	want := model.CloneItem(c.Item)
	want["pk"] = model.Str("the-key")
	differs := func(what string, got model.Item, exp model.Item) *failure {
		if !model.ItemEqual(exp, got) {
			return newFail("stored data shares memory with the caller", "%s %s: %s: expected %s, read %s", c.Client, c.Scenario, what, model.CanonItem(exp), model.CanonItem(got))
		}
		return singletonsIntact()
	}
	if c.Client == "v1" {
		d := drv.NewV1()
		d.Apply(model.Op{Kind: "CreateTable", Schema: sTable("tbl", false)})
		cl := d.C
		get := func() model.Item {
			out, err := cl.GetItem(&ddb1.GetItemInput{TableName: aws1.String("tbl"), Key: drv.ToV1Item(key)})
			if err != nil {
				return model.Item{"error": model.Str(err.Error())}
			}
			return drv.FromV1Item(out.Item)
		}
		in := drv.ToV1Item(want)
		if c.Scenario == "batch-write-input" {
			if _, err := cl.BatchWriteItem(&ddb1.BatchWriteItemInput{RequestItems: map[string][]*ddb1.WriteRequest{"tbl": {{PutRequest: &ddb1.PutRequest{Item: in}}}}}); err != nil {
				return nil
			}
		} else if _, err := cl.PutItem(&ddb1.PutItemInput{TableName: aws1.String("tbl"), Item: in}); err != nil {
			return nil
		}
		switch c.Scenario {
		case "input-after-put", "batch-write-input":
			pokeV1Map(in, p)
			return differs("after mutating the written input", get(), want)
		case "output-of-get":
			out, _ := cl.GetItem(&ddb1.GetItemInput{TableName: aws1.String("tbl"), Key: drv.ToV1Item(key)})
			pokeV1Map(out.Item, p)
			return differs("after mutating a GetItem output", get(), want)
		case "output-of-scan":
			out, _ := cl.Scan(&ddb1.ScanInput{TableName: aws1.String("tbl")})
			for _, it := range out.Items {
				pokeV1Map(it, p)
			}
			return differs("after mutating a Scan output", get(), want)
		case "output-of-query":
			out, _ := cl.Query(&ddb1.QueryInput{TableName: aws1.String("tbl"), KeyConditionExpression: aws1.String("pk = :k"),
				ExpressionAttributeValues: drv.ToV1Item(model.Item{":k": model.Str("the-key")})})
			for _, it := range out.Items {
				pokeV1Map(it, p)
			}
			return differs("after mutating a Query output", get(), want)
		case "update-values-and-output":
			vals := drv.ToV1Item(model.Item{":v": model.Map(map[string]model.AV{"k": model.Str("v"), "l": model.List(model.Num("1"), model.Bin([]byte{1, 2}))}),
				":bs": model.BinSet([]byte{0x10, 0}, []byte{0x11}), ":ss": model.StrSet("p", "q"), ":ns": model.NumSet("1", "2")})
			out, err := cl.UpdateItem(&ddb1.UpdateItemInput{TableName: aws1.String("tbl"), Key: drv.ToV1Item(key), UpdateExpression: aws1.String("SET upd = :v ADD addbs :bs, addss :ss, addns :ns"), ExpressionAttributeValues: vals})
			if err != nil {
				return nil
			}
			exp := get()
			pokeV1Map(vals, p)
			pokeV1Map(out.Attributes, p)
			return differs("after mutating UpdateItem values and output", get(), exp)
		case "kept-output-vs-later-write":
			out, _ := cl.GetItem(&ddb1.GetItemInput{TableName: aws1.String("tbl"), Key: drv.ToV1Item(key)})
			kept := drv.FromV1Item(out.Item)
			// later writes that touch every attribute through the interpreter and replace the item
			cl.UpdateItem(&ddb1.UpdateItemInput{TableName: aws1.String("tbl"), Key: drv.ToV1Item(key), UpdateExpression: aws1.String("SET upd = :v"),
				ExpressionAttributeValues: drv.ToV1Item(model.Item{":v": model.Str("x")})})
			repl := drv.ToV1Item(model.Item{"pk": model.Str("the-key"), "other": model.Str("y")})
			cl.PutItem(&ddb1.PutItemInput{TableName: aws1.String("tbl"), Item: repl})
			cur, _ := cl.GetItem(&ddb1.GetItemInput{TableName: aws1.String("tbl"), Key: drv.ToV1Item(key)})
			pokeV1Map(cur.Item, p)
			return differs("a previously returned item after later writes", drv.FromV1Item(out.Item), kept)
		case "last-evaluated-key", "last-evaluated-key-strings":
			d.Apply(model.Op{Kind: "CreateTable", Schema: c14KeyTable(c.Scenario)})
			items := c14KeyItems(c.Scenario, c.Item)
			for _, it := range items {
				if _, err := cl.PutItem(&ddb1.PutItemInput{TableName: aws1.String("tblb"), Item: drv.ToV1Item(it)}); err != nil {
					return nil
				}
			}
			all := func() []string {
				out, err := cl.Scan(&ddb1.ScanInput{TableName: aws1.String("tblb")})
				if err != nil {
					return []string{err.Error()}
				}
				var l []model.Item
				for _, it := range out.Items {
					l = append(l, drv.FromV1Item(it))
				}
				return model.CanonItems(l)
			}
			exp := all()
			sc, err := cl.Scan(&ddb1.ScanInput{TableName: aws1.String("tblb"), Limit: aws1.Int64(1)})
			if err != nil || len(sc.LastEvaluatedKey) == 0 {
				return nil
			}
			start := drv.ToV1Item(drv.FromV1Item(sc.LastEvaluatedKey))
			pokeV1Map(sc.LastEvaluatedKey, p)
			q, err := cl.Query(&ddb1.QueryInput{TableName: aws1.String("tblb"), KeyConditionExpression: aws1.String("pk = :k"), Limit: aws1.Int64(1), ExclusiveStartKey: start,
				ExpressionAttributeValues: drv.ToV1Item(model.Item{":k": items[0]["pk"]})})
			if err == nil {
				pokeV1Map(q.LastEvaluatedKey, p)
				pokeV1Map(start, p)
			}
			if got := all(); !sameStrings(exp, got) {
				return newFail("stored data shares memory with the caller", "%s %s: after mutating LastEvaluatedKey / ExclusiveStartKey: expected %v, read %v", c.Client, c.Scenario, exp, got)
			}
			return singletonsIntact()
		case "empty-results":
			// responses that carry no attributes (last page, missing item, nothing replaced): what
			// the caller stores in such a map must not come back in a later response
			missing := drv.ToV1Item(model.Item{"pk": model.Str("no-such-key")})
			collect := func() map[string]map[string]*ddb1.AttributeValue {
				ms := map[string]map[string]*ddb1.AttributeValue{}
				if q, err := cl.Query(&ddb1.QueryInput{TableName: aws1.String("tbl"), KeyConditionExpression: aws1.String("pk = :k"),
					ExpressionAttributeValues: drv.ToV1Item(model.Item{":k": model.Str("the-key")})}); err == nil {
					ms["Query.LastEvaluatedKey"] = q.LastEvaluatedKey
				}
				if sc, err := cl.Scan(&ddb1.ScanInput{TableName: aws1.String("tbl")}); err == nil {
					ms["Scan.LastEvaluatedKey"] = sc.LastEvaluatedKey
				}
				if g, err := cl.GetItem(&ddb1.GetItemInput{TableName: aws1.String("tbl"), Key: missing}); err == nil {
					ms["GetItem.Item"] = g.Item
				}
				if dl, err := cl.DeleteItem(&ddb1.DeleteItemInput{TableName: aws1.String("tbl"), Key: missing, ReturnValues: aws1.String("ALL_OLD")}); err == nil {
					ms["DeleteItem.Attributes"] = dl.Attributes
				}
				return ms
			}
			for _, m := range collect() {
				if m != nil && p.pick() {
					m["pk"] = &ddb1.AttributeValue{S: aws1.String("planted")}
				}
			}
			for what, m := range collect() {
				if len(m) != 0 {
					return newFail("stored data shares memory with the caller", "%s %s: %s of a later call carries %s, which the caller had stored in an earlier empty response", c.Client, c.Scenario, what, model.CanonItem(drv.FromV1Item(m)))
				}
			}
			return differs("after storing entries in empty responses", get(), want)
		case "upsert-key-input":
			d.Apply(model.Op{Kind: "CreateTable", Schema: c14BinTable()})
			k := model.Item{"pk": model.Bin([]byte{9, 9}), "sk": model.Bin([]byte{7})}
			keyIn := drv.ToV1Item(k)
			vals := drv.ToV1Item(model.Item{":v": c.Item["b"]})
			if _, err := cl.UpdateItem(&ddb1.UpdateItemInput{TableName: aws1.String("tblb"), Key: keyIn, UpdateExpression: aws1.String("SET upd = :v"), ExpressionAttributeValues: vals}); err != nil {
				return nil
			}
			read := func() model.Item {
				out, err := cl.GetItem(&ddb1.GetItemInput{TableName: aws1.String("tblb"), Key: drv.ToV1Item(k)})
				if err != nil {
					return model.Item{"error": model.Str(err.Error())}
				}
				return drv.FromV1Item(out.Item)
			}
			exp := read()
			pokeV1Map(keyIn, p)
			pokeV1Map(vals, p)
			return differs("after mutating the key and values of an upserting UpdateItem", read(), exp)
		case "condition-failure-item":
			// the v1 client returns minidyn's own exception type; whatever item it carries is the caller's
			_, err := cl.UpdateItem(&ddb1.UpdateItemInput{TableName: aws1.String("tbl"), Key: drv.ToV1Item(key), UpdateExpression: aws1.String("SET upd = :v"),
				ConditionExpression: aws1.String("attribute_not_exists(pk)"), ExpressionAttributeValues: drv.ToV1Item(model.Item{":v": model.Str("x")})})
			var cf *mtypes.ConditionalCheckFailedException
			if !errors.As(err, &cf) || cf.Item == nil {
				return nil
			}
			pokeTypesMap(cf.Item, p)
			return differs("after mutating the item carried by a ConditionalCheckFailedException", get(), want)
		case "append-to-output-after-later-write":
			// three rounds, so that a buffer boundary inside the library cannot hide the effect
			for round := 0; round < 3; round++ {
				out, err := cl.GetItem(&ddb1.GetItemInput{TableName: aws1.String("tbl"), Key: drv.ToV1Item(key)})
				if err != nil {
					return nil
				}
				nb := c14Neighbour()
				if _, err := cl.PutItem(&ddb1.PutItemInput{TableName: aws1.String("tbl"), Item: drv.ToV1Item(nb)}); err != nil {
					return nil
				}
				for _, k := range sortedKeysV1(out.Item) {
					appendV1(out.Item[k], p)
				}
				got, err := cl.GetItem(&ddb1.GetItemInput{TableName: aws1.String("tbl"), Key: drv.ToV1Item(model.Item{"pk": model.Str("neighbour")})})
				if err != nil {
					return newFail("read failed", "%v", err)
				}
				if f := differs("an item written after the output was handed out, after appending to the output's byte slices", drv.FromV1Item(got.Item), nb); f != nil {
					return f
				}
				if f := differs("after appending to a GetItem output", get(), want); f != nil {
					return f
				}
			}
			return nil
		case "native-upsert-key-input":
			d.Apply(model.Op{Kind: "CreateTable", Schema: c14BinTable()})
			cl.ActivateNativeInterpreter()
			cl.GetNativeInterpreter().AddUpdater("tblb", "SET st = :s, doc = :d", c14StoringUpdater)
			k := model.Item{"pk": model.Bin([]byte{9, 9}), "sk": model.Bin([]byte{7})}
			keyIn := drv.ToV1Item(k)
			vals := drv.ToV1Item(c14UpdaterValues)
			if _, err := cl.UpdateItem(&ddb1.UpdateItemInput{TableName: aws1.String("tblb"), Key: keyIn, UpdateExpression: aws1.String("SET st = :s, doc = :d"), ExpressionAttributeValues: vals}); err != nil {
				return nil
			}
			read := func() model.Item {
				out, err := cl.GetItem(&ddb1.GetItemInput{TableName: aws1.String("tblb"), Key: drv.ToV1Item(k)})
				if err != nil {
					return model.Item{"error": model.Str(err.Error())}
				}
				return drv.FromV1Item(out.Item)
			}
			exp := read()
			pokeV1Map(keyIn, p)
			pokeV1Map(vals, p)
			return differs("after mutating the key of an upserting UpdateItem served by a native updater", read(), exp)
		case "native-updater-values":
			cl.ActivateNativeInterpreter()
			cl.GetNativeInterpreter().AddUpdater("tbl", "SET st = :s, doc = :d", c14StoringUpdater)
			vals := drv.ToV1Item(c14UpdaterValues)
			out, err := cl.UpdateItem(&ddb1.UpdateItemInput{TableName: aws1.String("tbl"), Key: drv.ToV1Item(key), UpdateExpression: aws1.String("SET st = :s, doc = :d"), ExpressionAttributeValues: vals,
				ReturnValues: aws1.String("ALL_NEW")})
			if err != nil {
				return nil
			}
			exp := get()
			pokeV1Map(vals, p)
			pokeV1Map(out.Attributes, p)
			return differs("after mutating the values handed to a native updater", get(), exp)
		case "delete-old-output", "delete-old-output-after-update":
			if c.Scenario == "delete-old-output-after-update" {
				// every attribute has passed through the expression interpreter once
				if _, err := cl.UpdateItem(&ddb1.UpdateItemInput{TableName: aws1.String("tbl"), Key: drv.ToV1Item(key), UpdateExpression: aws1.String("SET upd = :v"),
					ExpressionAttributeValues: drv.ToV1Item(model.Item{":v": model.Bool(true)})}); err != nil {
					return nil
				}
				want["upd"] = model.Bool(true)
			}
			out, err := cl.DeleteItem(&ddb1.DeleteItemInput{TableName: aws1.String("tbl"), Key: drv.ToV1Item(key), ReturnValues: aws1.String("ALL_OLD")})
			if err != nil {
				return nil
			}
			kept := drv.FromV1Item(out.Attributes)
			cl.PutItem(&ddb1.PutItemInput{TableName: aws1.String("tbl"), Item: drv.ToV1Item(want)})
			exp := get()
			pokeV1Map(out.Attributes, p)
			if f := differs("after mutating a DeleteItem ALL_OLD output", get(), exp); f != nil {
				return f
			}
			_ = kept
			return nil
		}
		return nil
	}
	// SDK v2
	ctx := context.Background()
	d := drv.NewV2()
	d.Apply(model.Op{Kind: "CreateTable", Schema: sTable("tbl", false)})
	cl := d.C
	if open("F-V2EMPTY") && hasEmptyLM(want) {
		return nil
	}
	get := func() model.Item {
		out, err := cl.GetItem(ctx, &ddb2.GetItemInput{TableName: aws.String("tbl"), Key: drv.ToV2Item(key)})
		if err != nil {
			return model.Item{"error": model.Str(err.Error())}
		}
		return drv.FromV2Item(out.Item)
	}
	in := drv.ToV2Item(want)
	if c.Scenario == "batch-write-input" {
		if _, err := cl.BatchWriteItem(ctx, &ddb2.BatchWriteItemInput{RequestItems: map[string][]types2.WriteRequest{"tbl": {{PutRequest: &types2.PutRequest{Item: in}}}}}); err != nil {
			return nil
		}
	} else if _, err := cl.PutItem(ctx, &ddb2.PutItemInput{TableName: aws.String("tbl"), Item: in}); err != nil {
		return nil
	}
	switch c.Scenario {
	case "input-after-put", "batch-write-input":
		pokeV2Map(in, p)
		return differs("after mutating the written input", get(), want)
	case "output-of-get":
		out, _ := cl.GetItem(ctx, &ddb2.GetItemInput{TableName: aws.String("tbl"), Key: drv.ToV2Item(key)})
		pokeV2Map(out.Item, p)
		return differs("after mutating a GetItem output", get(), want)
	case "output-of-scan":
		out, _ := cl.Scan(ctx, &ddb2.ScanInput{TableName: aws.String("tbl")})
		for _, it := range out.Items {
			pokeV2Map(it, p)
		}
		return differs("after mutating a Scan output", get(), want)
	case "output-of-query":
		out, _ := cl.Query(ctx, &ddb2.QueryInput{TableName: aws.String("tbl"), KeyConditionExpression: aws.String("pk = :k"),
			ExpressionAttributeValues: drv.ToV2Item(model.Item{":k": model.Str("the-key")})})
		for _, it := range out.Items {
			pokeV2Map(it, p)
		}
		return differs("after mutating a Query output", get(), want)
	case "update-values-and-output":
		vals := drv.ToV2Item(model.Item{":v": model.Map(map[string]model.AV{"k": model.Str("v"), "l": model.List(model.Num("1"), model.Bin([]byte{1, 2}))}),
			":bs": model.BinSet([]byte{0x10, 0}, []byte{0x11}), ":ss": model.StrSet("p", "q"), ":ns": model.NumSet("1", "2")})
		out, err := cl.UpdateItem(ctx, &ddb2.UpdateItemInput{TableName: aws.String("tbl"), Key: drv.ToV2Item(key), UpdateExpression: aws.String("SET upd = :v ADD addbs :bs, addss :ss, addns :ns"), ExpressionAttributeValues: vals})
		if err != nil {
			return nil
		}
		exp := get()
		pokeV2Map(vals, p)
		pokeV2Map(out.Attributes, p)
		return differs("after mutating UpdateItem values and output", get(), exp)
	case "kept-output-vs-later-write":
		out, _ := cl.GetItem(ctx, &ddb2.GetItemInput{TableName: aws.String("tbl"), Key: drv.ToV2Item(key)})
		kept := drv.FromV2Item(out.Item)
		cl.UpdateItem(ctx, &ddb2.UpdateItemInput{TableName: aws.String("tbl"), Key: drv.ToV2Item(key), UpdateExpression: aws.String("SET upd = :v"),
			ExpressionAttributeValues: drv.ToV2Item(model.Item{":v": model.Str("x")})})
		cl.PutItem(ctx, &ddb2.PutItemInput{TableName: aws.String("tbl"), Item: drv.ToV2Item(model.Item{"pk": model.Str("the-key"), "other": model.Str("y")})})
		cur, _ := cl.GetItem(ctx, &ddb2.GetItemInput{TableName: aws.String("tbl"), Key: drv.ToV2Item(key)})
		pokeV2Map(cur.Item, p)
		return differs("a previously returned item after later writes", drv.FromV2Item(out.Item), kept)
	case "condition-failure-item":
		_, err := cl.UpdateItem(ctx, &ddb2.UpdateItemInput{TableName: aws.String("tbl"), Key: drv.ToV2Item(key), UpdateExpression: aws.String("SET upd = :v"),
			ConditionExpression: aws.String("attribute_not_exists(pk)"), ReturnValuesOnConditionCheckFailure: types2.ReturnValuesOnConditionCheckFailureAllOld,
			ExpressionAttributeValues: drv.ToV2Item(model.Item{":v": model.Str("x")})})
		var cf *types2.ConditionalCheckFailedException
		if !errors.As(err, &cf) || cf.Item == nil {
			return nil
		}
		pokeV2Map(cf.Item, p)
		return differs("after mutating the item carried by a ConditionalCheckFailedException", get(), want)
	case "last-evaluated-key", "last-evaluated-key-strings":
		d.Apply(model.Op{Kind: "CreateTable", Schema: c14KeyTable(c.Scenario)})
		items := c14KeyItems(c.Scenario, c.Item)
		for _, it := range items {
			if _, err := cl.PutItem(ctx, &ddb2.PutItemInput{TableName: aws.String("tblb"), Item: drv.ToV2Item(it)}); err != nil {
				return nil
			}
		}
		all := func() []string {
			out, err := cl.Scan(ctx, &ddb2.ScanInput{TableName: aws.String("tblb")})
			if err != nil {
				return []string{err.Error()}
			}
			var l []model.Item
			for _, it := range out.Items {
				l = append(l, drv.FromV2Item(it))
			}
			return model.CanonItems(l)
		}
		exp := all()
		sc, err := cl.Scan(ctx, &ddb2.ScanInput{TableName: aws.String("tblb"), Limit: aws.Int32(1)})
		if err != nil || len(sc.LastEvaluatedKey) == 0 {
			return nil
		}
		start := drv.ToV2Item(drv.FromV2Item(sc.LastEvaluatedKey))
		pokeV2Map(sc.LastEvaluatedKey, p)
		q, err := cl.Query(ctx, &ddb2.QueryInput{TableName: aws.String("tblb"), KeyConditionExpression: aws.String("pk = :k"), Limit: aws.Int32(1), ExclusiveStartKey: start,
			ExpressionAttributeValues: drv.ToV2Item(model.Item{":k": items[0]["pk"]})})
		if err == nil {
			pokeV2Map(q.LastEvaluatedKey, p)
			pokeV2Map(start, p)
		}
		if got := all(); !sameStrings(exp, got) {
			return newFail("stored data shares memory with the caller", "%s %s: after mutating LastEvaluatedKey / ExclusiveStartKey: expected %v, read %v", c.Client, c.Scenario, exp, got)
		}
		return singletonsIntact()
	case "empty-results":
		missing := drv.ToV2Item(model.Item{"pk": model.Str("no-such-key")})
		collect := func() map[string]map[string]types2.AttributeValue {
			ms := map[string]map[string]types2.AttributeValue{}
			if q, err := cl.Query(ctx, &ddb2.QueryInput{TableName: aws.String("tbl"), KeyConditionExpression: aws.String("pk = :k"),
				ExpressionAttributeValues: drv.ToV2Item(model.Item{":k": model.Str("the-key")})}); err == nil {
				ms["Query.LastEvaluatedKey"] = q.LastEvaluatedKey
			}
			if sc, err := cl.Scan(ctx, &ddb2.ScanInput{TableName: aws.String("tbl")}); err == nil {
				ms["Scan.LastEvaluatedKey"] = sc.LastEvaluatedKey
			}
			if g, err := cl.GetItem(ctx, &ddb2.GetItemInput{TableName: aws.String("tbl"), Key: missing}); err == nil {
				ms["GetItem.Item"] = g.Item
			}
			if dl, err := cl.DeleteItem(ctx, &ddb2.DeleteItemInput{TableName: aws.String("tbl"), Key: missing, ReturnValues: types2.ReturnValueAllOld}); err == nil {
				ms["DeleteItem.Attributes"] = dl.Attributes
			}
			var ccf *types2.ConditionalCheckFailedException
			if _, err := cl.PutItem(ctx, &ddb2.PutItemInput{TableName: aws.String("tbl"), Item: drv.ToV2Item(want), ConditionExpression: aws.String("attribute_not_exists(pk)")}); errors.As(err, &ccf) {
				ms["ConditionalCheckFailedException.Item"] = ccf.Item
			}
			return ms
		}
		for _, m := range collect() {
			if m != nil && p.pick() {
				m["pk"] = &types2.AttributeValueMemberS{Value: "planted"}
			}
		}
		for what, m := range collect() {
			if len(m) != 0 {
				return newFail("stored data shares memory with the caller", "%s %s: %s of a later call carries %s, which the caller had stored in an earlier empty response", c.Client, c.Scenario, what, model.CanonItem(drv.FromV2Item(m)))
			}
		}
		return differs("after storing entries in empty responses", get(), want)
	case "upsert-key-input":
		d.Apply(model.Op{Kind: "CreateTable", Schema: c14BinTable()})
		k := model.Item{"pk": model.Bin([]byte{9, 9}), "sk": model.Bin([]byte{7})}
		keyIn := drv.ToV2Item(k)
		vals := drv.ToV2Item(model.Item{":v": c.Item["b"]})
		if _, err := cl.UpdateItem(ctx, &ddb2.UpdateItemInput{TableName: aws.String("tblb"), Key: keyIn, UpdateExpression: aws.String("SET upd = :v"), ExpressionAttributeValues: vals}); err != nil {
			return nil
		}
		read := func() model.Item {
			out, err := cl.GetItem(ctx, &ddb2.GetItemInput{TableName: aws.String("tblb"), Key: drv.ToV2Item(k)})
			if err != nil {
				return model.Item{"error": model.Str(err.Error())}
			}
			return drv.FromV2Item(out.Item)
		}
		exp := read()
		pokeV2Map(keyIn, p)
		pokeV2Map(vals, p)
		return differs("after mutating the key and values of an upserting UpdateItem", read(), exp)
	case "append-to-output-after-later-write":
		for round := 0; round < 3; round++ {
			out, err := cl.GetItem(ctx, &ddb2.GetItemInput{TableName: aws.String("tbl"), Key: drv.ToV2Item(key)})
			if err != nil {
				return nil
			}
			nb := c14Neighbour()
			if _, err := cl.PutItem(ctx, &ddb2.PutItemInput{TableName: aws.String("tbl"), Item: drv.ToV2Item(nb)}); err != nil {
				return nil
			}
			keys := make([]string, 0, len(out.Item))
			for k := range out.Item {
				keys = append(keys, k)
			}
			sort.Strings(keys)
			for _, k := range keys {
				appendV2(out.Item[k], p)
			}
			got, err := cl.GetItem(ctx, &ddb2.GetItemInput{TableName: aws.String("tbl"), Key: drv.ToV2Item(model.Item{"pk": model.Str("neighbour")})})
			if err != nil {
				return newFail("read failed", "%v", err)
			}
			if f := differs("an item written after the output was handed out, after appending to the output's byte slices", drv.FromV2Item(got.Item), nb); f != nil {
				return f
			}
			if f := differs("after appending to a GetItem output", get(), want); f != nil {
				return f
			}
		}
		return nil
	case "native-upsert-key-input":
		d.Apply(model.Op{Kind: "CreateTable", Schema: c14BinTable()})
		cl.ActivateNativeInterpreter()
		cl.GetNativeInterpreter().AddUpdater("tblb", "SET st = :s, doc = :d", c14StoringUpdater)
		k := model.Item{"pk": model.Bin([]byte{9, 9}), "sk": model.Bin([]byte{7})}
		keyIn := drv.ToV2Item(k)
		vals := drv.ToV2Item(c14UpdaterValues)
		if _, err := cl.UpdateItem(ctx, &ddb2.UpdateItemInput{TableName: aws.String("tblb"), Key: keyIn, UpdateExpression: aws.String("SET st = :s, doc = :d"), ExpressionAttributeValues: vals}); err != nil {
			return nil
		}
		read := func() model.Item {
			out, err := cl.GetItem(ctx, &ddb2.GetItemInput{TableName: aws.String("tblb"), Key: drv.ToV2Item(k)})
			if err != nil {
				return model.Item{"error": model.Str(err.Error())}
			}
			return drv.FromV2Item(out.Item)
		}
		exp := read()
		pokeV2Map(keyIn, p)
		pokeV2Map(vals, p)
		return differs("after mutating the key of an upserting UpdateItem served by a native updater", read(), exp)
	case "native-updater-values":
		cl.ActivateNativeInterpreter()
		cl.GetNativeInterpreter().AddUpdater("tbl", "SET st = :s, doc = :d", c14StoringUpdater)
		vals := drv.ToV2Item(c14UpdaterValues)
		out, err := cl.UpdateItem(ctx, &ddb2.UpdateItemInput{TableName: aws.String("tbl"), Key: drv.ToV2Item(key), UpdateExpression: aws.String("SET st = :s, doc = :d"), ExpressionAttributeValues: vals,
			ReturnValues: types2.ReturnValueAllNew})
		if err != nil {
			return nil
		}
		exp := get()
		pokeV2Map(vals, p)
		pokeV2Map(out.Attributes, p)
		return differs("after mutating the values handed to a native updater", get(), exp)
	case "delete-old-output", "delete-old-output-after-update":
		if c.Scenario == "delete-old-output-after-update" {
			if _, err := cl.UpdateItem(ctx, &ddb2.UpdateItemInput{TableName: aws.String("tbl"), Key: drv.ToV2Item(key), UpdateExpression: aws.String("SET upd = :v"),
				ExpressionAttributeValues: drv.ToV2Item(model.Item{":v": model.Bool(true)})}); err != nil {
				return nil
			}
			want["upd"] = model.Bool(true)
		}
		out, err := cl.DeleteItem(ctx, &ddb2.DeleteItemInput{TableName: aws.String("tbl"), Key: drv.ToV2Item(key), ReturnValues: types2.ReturnValueAllOld})
		if err != nil {
			return nil
		}
		cl.PutItem(ctx, &ddb2.PutItemInput{TableName: aws.String("tbl"), Item: drv.ToV2Item(want)})
		exp := get()
		pokeV2Map(out.Attributes, p)
		return differs("after mutating a DeleteItem ALL_OLD output", get(), exp)
	}
	return nil
}

func init() {
	replayers["c14"] = func(raw json.RawMessage) *failure {
		var c c14Case
		if err := json.Unmarshal(raw, &c); err != nil {
			return newFail("bad replay file", "%v", err)
		}
		return runC14(c, nil)
	}
}

const ruleC14 = "rapid: an item drawn from the full attribute-value generator (nested lists and maps, sets, binaries), a client (SDK v1 / v2), a scenario (mutate the input after PutItem / BatchWriteItem; mutate the output of GetItem / Scan / Query / UpdateItem / DeleteItem ALL_OLD and the UpdateItem values map; keep an output across later writes; mutate the LastEvaluatedKey of a paginated Scan / Query and the ExclusiveStartKey passed in, on a table with binary keys; mutate the key and values of an upserting UpdateItem; mutate the values handed to a registered native updater that stores them, and the key of an UpdateItem it upserts; append to the byte slices of a GetItem output after another item has been written; store an entry in each empty map of the responses that carry no attributes - LastEvaluatedKey of a last page, GetItem / DeleteItem ALL_OLD of a missing key, a condition failure without item - and look at the same responses of later calls) and a poke plan - one generated decision per mutable location of the concrete SDK structure in traversal order (each *string, *bool, byte-slice element, list slot, map entry, set member). Oracle: a read after the pokes equals the deep snapshot taken before them (a kept output equals its own snapshot after later writes), and the interpreter's TRUE / FALSE / UNDEFINED singletons keep their values. Non-trivial = at least one poke performed on a pointer, slice or map location; distinct = hash of (client, scenario, item, mask)."

// TestC14 decides property C14.
func TestC14(t *testing.T) {
	st := stats.For("C14")
	st.SetRule(ruleC14)
	rapid.Check(t, func(rt *rapid.T) {
		o := avOpts(3, false)
		o.FloatExact = open("F-FLOAT") // some scenarios send every attribute through an update
		it := gen.Attrs(rt, o, 5, "attrs")
		// always some structure worth poking
		it["s"] = model.Str(gen.Str(false).Draw(rt, "s"))
		it["b"] = model.Bin(gen.Bytes(false).Draw(rt, "b"))
		it["l"] = model.List(model.Num("1"), model.Map(map[string]model.AV{"k": model.StrSet("a", "b")}), model.Bool(true), model.Null())
		delete(it, "pk")
		delete(it, "upd")
		delete(it, "injected")
		c := c14Case{
			Client:   rapid.SampledFrom([]string{"v1", "v2"}).Draw(rt, "client"),
			Scenario: rapid.SampledFrom(c14Scenarios).Draw(rt, "scenario"),
			Item:     it,
		}
		if rapid.Bool().Draw(rt, "pokeAll") {
			c.Mask = nil
		} else {
			c.Mask = rapid.SliceOfN(rapid.Bool(), 1, 60).Draw(rt, "mask")
		}
		pending("C14", "c14", c)
		pokes := 0
		f := runC14(c, &pokes)
		st.Case(pokes > 0, c)
		st.Class(c.Client + "-" + c.Scenario)
		if f != nil {
			failCase(rt, "C14", "c14", f, c)
		}
	})
}

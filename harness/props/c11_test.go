package props

import (
	"encoding/json"
	"fmt"
	"os"
	"runtime"
	"strings"
	"sync"
	"sync/atomic"
	"testing"
	"time"

	"github.com/anishathalye/porcupine"
	"pgregory.net/rapid"

	"github.com/truora/minidyn/core"

	"verifharness/drv"
	"verifharness/model"
	"verifharness/stats"
)

// c11Case is a concurrent program: a sequential setup, then the threads run
// concurrently from a barrier; the whole program is executed Runs times.
type c11Case struct {
	Client  string       `json:"client"`
	Flavour string       `json:"flavour"` // data | mixed
	Setup   []model.Op   `json:"setup"`
	Threads [][]model.Op `json:"threads"`
	Runs    int          `json:"runs"`
	// Pauses: the n-th passage (counted over all goroutines of a run) through
	// a yield point inside the table operations sleeps ~1.5 ms while the
	// client lock is held. A mutex whose waiter has waited > 1 ms hands over
	// directly at the next Unlock, so a lock that is dropped and re-taken in
	// the middle of an operation is interleaved with high probability.
	Pauses []int `json:"pauses,omitempty"`
}

// recordsHistory: the flavours whose histories are checked for linearizability.
func (c c11Case) recordsHistory() bool { return c.Flavour == "data" || c.Flavour == "failure" }

// ---- sequential specification of the single-item "counter item" operations

type c11In struct {
	Kind string // PUT CPUT ADD GET DEL CDEL
	Key  string
	C    int
}

type c11Out struct {
	Err    string
	Exists bool
	C      int
	Count  int // DescribeTable: ItemCount
}

type c11State struct {
	Exists bool
	C      int
}

var c11Model = porcupine.Model{
	Partition: func(history []porcupine.Operation) [][]porcupine.Operation {
		m := map[string][]porcupine.Operation{}
		var keys []string
		for _, op := range history {
			k := op.Input.(c11In).Key
			if _, ok := m[k]; !ok {
				keys = append(keys, k)
			}
			m[k] = append(m[k], op)
		}
		out := make([][]porcupine.Operation, 0, len(keys))
		for _, k := range keys {
			out = append(out, m[k])
		}
		return out
	},
	Init: func() interface{} { return c11State{} },
	Step: func(state, input, output interface{}) (bool, interface{}) {
		return c11KeyStep(state.(c11State), input.(c11In), output.(c11Out))
	},
	Equal: func(a, b interface{}) bool { return a.(c11State) == b.(c11State) },
	DescribeOperation: func(input, output interface{}) string {
		return fmt.Sprintf("%+v -> %+v", input, output)
	},
}

// c11KeyStep is the sequential specification of one counter item (or one
// table name of the catalogue).
func c11KeyStep(s c11State, in c11In, out c11Out) (bool, interface{}) {
	{
		switch in.Kind {
		case "PUT":
			return out.Err == "", c11State{true, in.C}
		case "CPUT":
			if s.Exists {
				return out.Err == model.ErrCondFailed, s
			}
			return out.Err == "", c11State{true, in.C}
		case "ADD":
			n := c11State{true, s.C + 1}
			if !s.Exists {
				n.C = 1
			}
			return out.Err == "" && out.C == n.C, n
		case "GET":
			return out.Err == "" && out.Exists == s.Exists && (!s.Exists || out.C == s.C), s
		case "DEL":
			return out.Err == "" && out.Exists == s.Exists && (!s.Exists || out.C == s.C), c11State{}
		case "CDEL":
			if !s.Exists {
				return out.Err == model.ErrCondFailed, s
			}
			return out.Err == "", c11State{}
		case "CREATE": // table catalogue: the partition key is "table:<name>"
			if s.Exists {
				return out.Err == model.ErrInUse, s
			}
			return out.Err == "", c11State{Exists: true}
		case "DROP":
			if !s.Exists {
				return out.Err == model.ErrNotFound, s
			}
			return out.Err == "", c11State{}
		case "DESC":
			if !s.Exists {
				return out.Err == model.ErrNotFound, s
			}
			return out.Err == "", s
		}
		return false, s
	}
}

// ---- sequential specification of the "failure window" programs: the three
// counter items plus the emulated-failure switch, in one partition. While the
// switch is on every data operation fails with the configured error and
// changes nothing; DescribeTable is not a data operation and keeps reporting
// the item count, so a write that lands inside the window is visible.

var c11FailKeys = []string{"k1", "k2", "k3"}

type c11FailState struct {
	F bool
	K [3]c11State
}

func c11KeyIndex(k string) int {
	for i, x := range c11FailKeys {
		if x == k {
			return i
		}
	}
	return 0
}

var c11FailModel = porcupine.Model{
	Init: func() interface{} { return c11FailState{} },
	Step: func(state, input, output interface{}) (bool, interface{}) {
		s, in, out := state.(c11FailState), input.(c11In), output.(c11Out)
		switch in.Kind {
		case "TOGGLE":
			s.F = in.C == 1
			return out.Err == "", s
		case "COUNT":
			n := 0
			for _, k := range s.K {
				if k.Exists {
					n++
				}
			}
			return out.Err == "" && out.Count == n, s
		}
		if s.F {
			return out.Err == model.ErrInternal, s
		}
		i := c11KeyIndex(in.Key)
		ok, next := c11KeyStep(s.K[i], in, out)
		s.K[i] = next.(c11State)
		return ok, s
	},
	Equal: func(a, b interface{}) bool { return a.(c11FailState) == b.(c11FailState) },
	DescribeOperation: func(input, output interface{}) string {
		return fmt.Sprintf("%+v -> %+v", input, output)
	},
}

func c11Key(k string) model.Item { return model.Item{"pk": model.Str(k)} }

func c11DataOp(in c11In) model.Op {
	switch in.Kind {
	case "PUT":
		return model.Op{Kind: "Put", Table: "tbl", Item: model.Item{"pk": model.Str(in.Key), "c": model.Num(fmt.Sprint(in.C))}}
	case "CPUT":
		return model.Op{Kind: "Put", Table: "tbl", Item: model.Item{"pk": model.Str(in.Key), "c": model.Num(fmt.Sprint(in.C))}, Cond: "attribute_not_exists(pk)"}
	case "ADD":
		return model.Op{Kind: "Update", Table: "tbl", Key: c11Key(in.Key), Update: "ADD c :one", Values: map[string]model.AV{":one": model.Num("1")}}
	case "GET":
		return model.Op{Kind: "Get", Table: "tbl", Key: c11Key(in.Key)}
	case "DEL":
		return model.Op{Kind: "Delete", Table: "tbl", Key: c11Key(in.Key), ReturnOld: true}
	}
	return model.Op{Kind: "Delete", Table: "tbl", Key: c11Key(in.Key), Cond: "attribute_exists(pk)"}
}

// c11Decode recovers the abstract input of a data-flavour operation.
func c11Decode(op model.Op) (c11In, bool) {
	num := func(it model.Item) int {
		var n int
		fmt.Sscan(it["c"].S, &n)
		return n
	}
	switch {
	case op.Kind == "SetFailure":
		if op.Failure == "internal_server" {
			return c11In{"TOGGLE", "", 1}, true
		}
		return c11In{"TOGGLE", "", 0}, true
	case op.Kind == "DescribeTable" && op.Table == "tbl":
		return c11In{"COUNT", "", 0}, true
	case op.Kind == "CreateTable" && op.Schema != nil && op.Schema.Table != "tbl":
		return c11In{"CREATE", "table:" + op.Schema.Table, 0}, true
	case op.Kind == "DeleteTable" && op.Table != "tbl":
		return c11In{"DROP", "table:" + op.Table, 0}, true
	case op.Kind == "DescribeTable" && op.Table != "tbl":
		return c11In{"DESC", "table:" + op.Table, 0}, true
	case op.Table != "tbl" && op.Kind != "CreateTable":
		return c11In{}, false
	case op.Kind == "Put" && op.Cond == "":
		return c11In{"PUT", op.Item["pk"].S, num(op.Item)}, true
	case op.Kind == "Put":
		return c11In{"CPUT", op.Item["pk"].S, num(op.Item)}, true
	case op.Kind == "Update":
		return c11In{"ADD", op.Key["pk"].S, 0}, true
	case op.Kind == "Get":
		return c11In{"GET", op.Key["pk"].S, 0}, true
	case op.Kind == "Delete" && op.Cond == "":
		return c11In{"DEL", op.Key["pk"].S, 0}, true
	case op.Kind == "Delete":
		return c11In{"CDEL", op.Key["pk"].S, 0}, true
	}
	return c11In{}, false
}

func c11Output(r model.Result) c11Out {
	out := c11Out{Err: r.Err}
	if r.Desc != nil {
		out.Count = r.Desc.Count
	}
	if c, ok := r.Item["c"]; ok {
		out.Exists = true
		fmt.Sscan(c.S, &out.C)
	} else if len(r.Item) > 0 {
		out.Exists = true
	}
	return out
}

// tableNativeMode reads the UseNativeInterpreter flag of a client's table.
func tableNativeMode(d drv.Real, table string) (bool, bool) {
	switch x := d.(type) {
	case *drv.V1:
		if t := x.C.VerifTable(table); t != nil {
			return t.UseNativeInterpreter, true
		}
	case *drv.V2:
		if t := x.C.VerifTable(table); t != nil {
			return t.UseNativeInterpreter, true
		}
	}
	return false, false
}

func newC11Driver(client string) drv.Real {
	if client == "v1" {
		return drv.NewV1()
	}
	return drv.NewV2()
}

type c11Batch struct {
	op  model.Op
	res model.Result
}

func c11BatchSize(op model.Op) int {
	n := 0
	for _, tb := range op.Batch {
		n += len(tb.Reqs)
	}
	return n
}

type c11Info struct {
	partialBatches int
	overlaps       int
	sharedKeys     bool
	inconclusive   string
}

// runC11 executes the program Runs times.
func runC11(c c11Case, info *c11Info) *failure {
	for run := 0; run < c.Runs; run++ {
		d := newC11Driver(c.Client)
		var passages int64
		pauses := map[int64]bool{}
		for _, p := range c.Pauses {
			pauses[int64(p)] = true
		}
		core.VerifYield = nil
		if len(pauses) > 0 {
			core.VerifYield = func(string) {
				if pauses[atomic.AddInt64(&passages, 1)] {
					time.Sleep(1500 * time.Microsecond)
				}
			}
		}
		var clock int64
		var mu sync.Mutex
		var history []porcupine.Operation
		for _, op := range c.Setup {
			call := atomic.AddInt64(&clock, 1)
			r := d.Apply(op)
			ret := atomic.AddInt64(&clock, 1)
			if r.Err == model.ErrRuntimePanic {
				return newFail("runtime panic", "setup %s: %s", op.Kind, r.ErrText)
			}
			if in, ok := c11Decode(op); ok && c.recordsHistory() {
				history = append(history, porcupine.Operation{ClientId: len(c.Threads) + 1, Input: in, Call: call, Output: c11Output(r), Return: ret})
			}
		}
		var panics []string
		var batches []c11Batch
		start := make(chan struct{})
		var wg sync.WaitGroup
		for ti, ops := range c.Threads {
			wg.Add(1)
			go func(ti int, ops []model.Op) {
				defer wg.Done()
				<-start
				for _, op := range ops {
					call := atomic.AddInt64(&clock, 1)
					r := d.Apply(op)
					ret := atomic.AddInt64(&clock, 1)
					// (a read through an index the table does not have faults in the unchanged
					// library, sequentially too; no listed property asks for more, and what
					// matters here is that the client stays usable afterwards)
					if r.Err == model.ErrRuntimePanic && op.Index != "nosuchindex" {
						mu.Lock()
						panics = append(panics, fmt.Sprintf("%s: %s", op.Kind, r.ErrText))
						mu.Unlock()
					}
					if c.Flavour == "batch-failure" && op.Kind == "BatchWrite" {
						mu.Lock()
						batches = append(batches, c11Batch{op, r})
						mu.Unlock()
					}
					if in, ok := c11Decode(op); ok && c.recordsHistory() {
						mu.Lock()
						history = append(history, porcupine.Operation{ClientId: ti, Input: in, Call: call, Output: c11Output(r), Return: ret})
						mu.Unlock()
					}
				}
			}(ti, ops)
		}
		done := make(chan struct{})
		go func() { wg.Wait(); close(done) }()
		close(start)
		select {
		case <-done:
			core.VerifYield = nil
		case <-time.After(30 * time.Second):
			buf := make([]byte, 1<<20)
			n := runtime.Stack(buf, true)
			dump := string(buf[:n])
			if g := blockedInMinidyn(dump); g != "" {
				return newFail("deadlock", "program did not finish; a goroutine is parked on a lock inside minidyn:\n%.3000s", g)
			}
			info.inconclusive = "program did not finish within the watchdog, no minidyn goroutine parked on a mutex"
			return nil
		}
		if len(panics) > 0 {
			return newFail("runtime panic", "run %d: %v", run, panics)
		}
		if c.recordsHistory() {
			// final reads complete the history
			keys := map[string]bool{}
			for _, op := range history {
				if k := op.Input.(c11In).Key; k != "" {
					keys[k] = true
				}
			}
			if c.Flavour == "failure" {
				for _, fin := range []model.Op{{Kind: "DescribeTable", Table: "tbl"}, {Kind: "SetFailure", Failure: "none"}} {
					in, _ := c11Decode(fin)
					call := atomic.AddInt64(&clock, 1)
					r := d.Apply(fin)
					ret := atomic.AddInt64(&clock, 1)
					history = append(history, porcupine.Operation{ClientId: len(c.Threads), Input: in, Call: call, Output: c11Output(r), Return: ret})
				}
			}
			for k := range keys {
				if strings.HasPrefix(k, "table:") {
					call := atomic.AddInt64(&clock, 1)
					r := d.Apply(model.Op{Kind: "DescribeTable", Table: strings.TrimPrefix(k, "table:")})
					ret := atomic.AddInt64(&clock, 1)
					history = append(history, porcupine.Operation{ClientId: len(c.Threads), Input: c11In{Kind: "DESC", Key: k}, Call: call, Output: c11Output(r), Return: ret})
					continue
				}
				call := atomic.AddInt64(&clock, 1)
				r := d.Apply(c11DataOp(c11In{Kind: "GET", Key: k}))
				ret := atomic.AddInt64(&clock, 1)
				history = append(history, porcupine.Operation{ClientId: len(c.Threads), Input: c11In{Kind: "GET", Key: k}, Call: call, Output: c11Output(r), Return: ret})
			}
			for i := range history {
				for j := range history {
					if i < j && history[i].ClientId != history[j].ClientId && history[i].Call < history[j].Return && history[j].Call < history[i].Return {
						info.overlaps++
					}
				}
			}
			spec := c11Model
			if c.Flavour == "failure" {
				spec = c11FailModel
			}
			res := porcupine.CheckOperationsTimeout(spec, history, 20*time.Second)
			if res == porcupine.Illegal {
				var sb strings.Builder
				for _, op := range history {
					fmt.Fprintf(&sb, "[%d,%d] client %d %+v -> %+v\n", op.Call, op.Return, op.ClientId, op.Input, op.Output)
				}
				return newFail("history is not linearizable", "run %d:\n%s", run, sb.String())
			}
			if res == porcupine.Unknown {
				info.inconclusive = "linearizability checker timed out"
			}
		}
		// post-state: no corruption
		d.Apply(model.Op{Kind: "SetFailure", Failure: "none"})
		// a batch that raced with the failure switch: every put (all keys are
		// unique and nothing deletes them) was applied or handed back, not both, not neither
		for _, b := range batches {
			if b.res.Err != "" {
				continue
			}
			back := map[string]bool{}
			for _, tb := range b.res.Unprocessed {
				for _, w := range tb.Reqs {
					if w.Put != nil {
						back[tb.Table+"/"+w.Put["pk"].S] = true
					}
				}
			}
			for _, tb := range b.op.Batch {
				for _, w := range tb.Reqs {
					k := w.Put["pk"].S
					g := d.Apply(model.Op{Kind: "Get", Table: tb.Table, Key: c11Key(k)})
					stored := g.Err == "" && len(g.Item) > 0
					switch {
					case stored && back[tb.Table+"/"+k]:
						return newFail("batch request applied and reported unprocessed", "run %d: put of %s/%s was stored although BatchWriteItem handed it back as unprocessed (%d of %d handed back)", run, tb.Table, k, len(back), len(tb.Reqs))
					case !stored && !back[tb.Table+"/"+k]:
						return newFail("batch request dropped", "run %d: put of %s/%s is neither stored nor among the unprocessed requests", run, tb.Table, k)
					}
				}
			}
			if len(back) > 0 && len(back) < c11BatchSize(b.op) {
				info.partialBatches++
			}
		}
		for _, tn := range d.TableNames() {
			wb := d.Whitebox(tn)
			if wb == nil {
				continue
			}
			if !sameStrings(wb.SortedKeys, wb.DataKeys) {
				return newFail("table state corrupted by concurrent use", "table %s: SortedKeys %q Data keys %q", tn, wb.SortedKeys, wb.DataKeys)
			}
		}
		// every table is in the interpreter mode of the client (they are switched together)
		modes := map[bool][]string{}
		for _, tn := range d.TableNames() {
			if native, ok := tableNativeMode(d, tn); ok {
				modes[native] = append(modes[native], tn)
			}
		}
		if len(modes) > 1 {
			return newFail("table state corrupted by concurrent use", "run %d: tables %v use the native interpreter, tables %v do not", run, modes[true], modes[false])
		}
		// the index of the main table holds exactly the stored items that carry its key
		if tbl := d.Apply(model.Op{Kind: "Scan", Table: "tbl"}); tbl.Err == "" {
			if ix := d.Apply(model.Op{Kind: "Scan", Table: "tbl", Index: "gidx"}); ix.Err == "" {
				var want []model.Item
				for _, it := range tbl.Items {
					if v, ok := it["g1"]; ok && v.T == "S" {
						want = append(want, it)
					}
				}
				if !model.MultisetEqual(want, ix.Items) {
					return newFail("table state corrupted by concurrent use", "run %d: index gidx holds %v, the table's items with the index key are %v", run, model.CanonItems(ix.Items), model.CanonItems(want))
				}
			}
		}
	}
	return nil
}

// blockedInMinidyn returns the stack of a goroutine that is parked on a
// synchronisation primitive below a minidyn frame ("" if there is none).
func blockedInMinidyn(dump string) string {
	for _, g := range strings.Split(dump, "\n\n") {
		if !strings.Contains(g, "truora/minidyn/") {
			continue
		}
		head := g
		if i := strings.Index(g, "\n"); i >= 0 {
			head = g[:i]
		}
		for _, state := range []string{"[semacquire", "[sync.Mutex.Lock", "[sync.RWMutex.Lock", "[sync.RWMutex.RLock", "[sync.Cond.Wait", "[sync.WaitGroup.Wait", "[chan receive", "[chan send", "[select"} {
			if strings.Contains(head, state) {
				return g
			}
		}
	}
	return ""
}

func init() {
	replayers["c11"] = func(raw json.RawMessage) *failure {
		var c c11Case
		if err := json.Unmarshal(raw, &c); err != nil {
			return newFail("bad replay file", "%v", err)
		}
		if c.Runs < 50 {
			c.Runs = 50
		}
		return runC11(c, &c11Info{})
	}
}

const ruleC11 = "rapid generates concurrent programs (sequential setup + 2-8 goroutines x 2-10 operations released from a barrier), each executed repeatedly on a fresh SDK v1 or v2 client in a binary built with the Go race detector (GORACE=halt_on_error), two thirds of them with a generated pause plan (the n-th passage through a verif yield point inside the table operations sleeps 1.5 ms while the client lock is held, which puts the mutex into hand-off mode so that a lock dropped and re-taken inside an operation is interleaved): 'data' programs over a tiny key space of counter items (a third of the 'data' programs on a table without any secondary index) (PutItem, conditional PutItem attribute_not_exists, UpdateItem ADD 1, GetItem, DeleteItem ALL_OLD, conditional DeleteItem) and 'catalogue' programs (CreateTable / DeleteTable / DescribeTable on two names, N racing CreateTable on one fresh name) whose invoke/return-stamped histories, completed by final reads, are checked for linearizability with porcupine against the sequential counter-item / table-catalogue specification (this subsumes 'N concurrent ADD-1 yield N' and 'exactly one of N racing conditional puts succeeds', both also generated as dedicated programs); 'failure' programs (writers and readers on the counter items beside goroutines that switch the emulated failure on and off and read DescribeTable's item count inside the window), checked against the specification extended by the switch: once EmulateFailure has returned, no write may land until it is switched off; 'native-race' programs (CreateTable racing with ActivateNativeInterpreter / SetInterpreter; afterwards all tables are in one interpreter mode); 'batch-failure' programs (BatchWriteItem calls of 2-25 puts with unique keys beside goroutines that switch the emulated internal-server failure on and off, always with a pause plan; afterwards every put is stored or was handed back as unprocessed, never both, never neither); 'shared-input' programs (several goroutines pass the very same prepared GetItemInput / QueryInput / ScanInput object to the client, beside writers); 'mixed' programs over every client method (including UpdateTable calls that carry attribute definitions only, and reads whose filter does not parse or whose index does not exist - the call fails or panics, is recovered, and the client must stay usable; CreateTable / DeleteTable / UpdateTable / DescribeTable, batch calls over one and two tables with and without ConsistentRead, TransactWriteItems, Query, Scan, ClearTable, failure toggling, GetNativeInterpreter / SetInterpreter / ActivateNativeInterpreter, data operations). Oracles: race detector report (the program being executed is recorded before it starts), runtime panic or fatal error, deadlock watchdog (a goroutine parked on a lock, condition or channel below a minidyn frame after 30 s), linearizability, SortedKeys/Data consistency and index-vs-table agreement afterwards. Non-trivial = program in which >= 2 goroutines touch the same key or the table catalogue; distinct = hash of the program."

// c11Recorded: a failing program has been written to the replay file of this process.
var c11Recorded bool

// TestC11 decides property C11.
func TestC11(t *testing.T) {
	st := stats.For("C11")
	st.SetRule(ruleC11)
	runs := 6
	if os.Getenv("VERIF_TIER") == "thorough" {
		runs = 25
	}
	rapid.Check(t, func(rt *rapid.T) {
		c := c11Case{Client: rapid.SampledFrom([]string{"v1", "v2"}).Draw(rt, "client"), Runs: runs}
		c.Flavour = rapid.SampledFrom([]string{"data", "data", "mixed", "mixed", "counter", "racing-puts", "racing-deletes", "catalogue", "racing-creates", "failure", "failure", "native-race", "batch-failure", "shared-input"}).Draw(rt, "flavour")
		mainSchema := sTable("tbl", false)
		mainSchema.Attrs["g1"] = "S"
		mainSchema.Indexes = []model.IndexSchema{{Name: "gidx", Hash: "g1", Global: true, NoThroughput: true}}
		if c.Flavour == "data" && rapid.IntRange(0, 2).Draw(rt, "mainTableIndex") == 1 {
			// a table without any secondary index (not for 'mixed' programs: a Scan that
			// names an index the table does not have ends in a nil dereference inside the
			// library, which no listed property covers)
			mainSchema.Indexes = nil
			st.Class("main-table-without-index")
		}
		c.Setup = []model.Op{{Kind: "CreateTable", Schema: mainSchema}}
		keys := []string{"k1", "k2", "k3"}
		nThreads := rapid.IntRange(2, 8).Draw(rt, "threads")
		shared := false
		switch c.Flavour {
		case "counter":
			c.Flavour = "data"
			for i := 0; i < nThreads; i++ {
				c.Threads = append(c.Threads, []model.Op{c11DataOp(c11In{Kind: "ADD", Key: "k1"}), c11DataOp(c11In{Kind: "ADD", Key: "k1"})})
			}
			shared = true
		case "racing-creates":
			// exactly one of N racing CreateTable calls on a fresh name succeeds
			c.Flavour = "data"
			for i := 0; i < nThreads; i++ {
				c.Threads = append(c.Threads, []model.Op{{Kind: "CreateTable", Schema: sTable("fresh", false)}, {Kind: "DescribeTable", Table: "fresh"}})
			}
			shared = true
		case "catalogue":
			// table management calls on two names: the catalogue must be linearizable
			c.Flavour = "data"
			for i := 0; i < nThreads; i++ {
				n := rapid.IntRange(2, 6).Draw(rt, "opsPerThread")
				var ops []model.Op
				for j := 0; j < n; j++ {
					name := rapid.SampledFrom([]string{"cat1", "cat2"}).Draw(rt, "tableName")
					ops = append(ops, rapid.SampledFrom([]model.Op{
						{Kind: "CreateTable", Schema: sTable(name, false)},
						{Kind: "CreateTable", Schema: sTable(name, true)},
						{Kind: "DeleteTable", Table: name},
						{Kind: "DescribeTable", Table: name},
					}).Draw(rt, "catalogueOp"))
				}
				c.Threads = append(c.Threads, ops)
			}
			shared = true
		case "racing-puts":
			c.Flavour = "data"
			for i := 0; i < nThreads; i++ {
				c.Threads = append(c.Threads, []model.Op{c11DataOp(c11In{Kind: "CPUT", Key: "k1", C: i + 1})})
			}
			shared = true
		case "racing-deletes":
			c.Flavour = "data"
			c.Setup = append(c.Setup, c11DataOp(c11In{Kind: "PUT", Key: "k1", C: 7}))
			for i := 0; i < nThreads; i++ {
				c.Threads = append(c.Threads, []model.Op{c11DataOp(c11In{Kind: "CDEL", Key: "k1"}), c11DataOp(c11In{Kind: "CPUT", Key: "k1", C: i + 1})})
			}
			shared = true
		case "native-race":
			// table creation racing with the switches of the native interpreter: whatever
			// the order, afterwards every table is in the mode the client is in
			c.Flavour = "mixed"
			for i := 0; i < nThreads; i++ {
				var ops []model.Op
				for j, n := 0, rapid.IntRange(1, 3).Draw(rt, "opsPerThread"); j < n; j++ {
					ops = append(ops, rapid.SampledFrom([]model.Op{
						{Kind: "CreateTable", Schema: sTable(fmt.Sprintf("fresh%d", i), false)},
						{Kind: "CreateTable", Schema: sTable("other", false)},
						{Kind: "NativeActivate"},
						{Kind: "NativeActivate"},
						{Kind: "NativeSet"},
						{Kind: "NativeGet"},
						{Kind: "DescribeTable", Table: "other"},
					}).Draw(rt, "nativeRaceOp"))
				}
				c.Threads = append(c.Threads, ops)
			}
			shared = true
		case "batch-failure":
			// multi-request batch writes beside goroutines that switch the emulated
			// internal-server failure on and off: each request applied xor handed back
			for i := 0; i < nThreads; i++ {
				var ops []model.Op
				if i%2 == 0 {
					for j, n := 0, rapid.IntRange(2, 8).Draw(rt, "toggles"); j < n; j++ {
						ops = append(ops, model.Op{Kind: "SetFailure", Failure: []string{"internal_server", "none"}[j%2]})
					}
				} else {
					for j, n := 0, rapid.IntRange(1, 3).Draw(rt, "batches"); j < n; j++ {
						b := model.TableBatch{Table: "tbl"}
						for k, m := 0, rapid.IntRange(2, 25).Draw(rt, "batchSize"); k < m; k++ {
							b.Reqs = append(b.Reqs, model.WriteReq{Put: model.Item{"pk": model.Str(fmt.Sprintf("b%d-%d-%d", i, j, k)), "c": model.Num("1")}})
						}
						ops = append(ops, model.Op{Kind: "BatchWrite", Batch: []model.TableBatch{b}})
					}
				}
				c.Threads = append(c.Threads, ops)
			}
			shared = true
		case "shared-input":
			// several goroutines hand the very same prepared request object to the
			// client (a read never writes to it outside the client lock), beside writers
			c.Flavour = "mixed"
			for _, k := range keys {
				c.Setup = append(c.Setup, model.Op{Kind: "Put", Table: "tbl", Item: model.Item{"pk": model.Str(k), "c": model.Num("1"), "g1": model.Str("g")}})
			}
			reads := []model.Op{
				{Kind: "Query", Table: "tbl", KeyCond: "pk = :h", Values: map[string]model.AV{":h": model.Str("k1")}, Shared: "q1"},
				{Kind: "Query", Table: "tbl", Index: "gidx", KeyCond: "#g = :g", Names: map[string]string{"#g": "g1"}, Values: map[string]model.AV{":g": model.Str("g")}, Limit: 2, Shared: "q2"},
				{Kind: "Query", Table: "tbl", KeyCond: "pk = :h", Filter: "c >= :one", Values: map[string]model.AV{":h": model.Str("k2"), ":one": model.Num("1")}, Backward: true, Shared: "q3"},
				{Kind: "Scan", Table: "tbl", Shared: "s1"},
				{Kind: "Scan", Table: "tbl", Index: "gidx", Filter: "c >= :one", Values: map[string]model.AV{":one": model.Num("1")}, Limit: 2, Shared: "s2"},
				{Kind: "Get", Table: "tbl", Key: c11Key("k1"), Shared: "g1"},
				{Kind: "Get", Table: "tbl", Key: c11Key("k2"), Projection: "#c", Names: map[string]string{"#c": "c"}, Shared: "g2"},
			}
			for i := 0; i < nThreads; i++ {
				var ops []model.Op
				for j, n := 0, rapid.IntRange(2, 6).Draw(rt, "opsPerThread"); j < n; j++ {
					if rapid.IntRange(0, 3).Draw(rt, "writer") == 2 {
						ops = append(ops, c11DataOp(c11In{Kind: rapid.SampledFrom([]string{"ADD", "PUT", "DEL"}).Draw(rt, "dataOp"), Key: rapid.SampledFrom(keys).Draw(rt, "key")}))
						continue
					}
					ops = append(ops, rapid.SampledFrom(reads).Draw(rt, "sharedRead"))
				}
				c.Threads = append(c.Threads, ops)
			}
			shared = true
		case "failure":
			// writers and readers beside a goroutine that opens and closes
			// failure windows and counts the items inside them
			for i := 0; i < nThreads; i++ {
				n := rapid.IntRange(2, 6).Draw(rt, "opsPerThread")
				var ops []model.Op
				observer := i == 0 || rapid.IntRange(0, 3).Draw(rt, "observer") == 0
				for j := 0; j < n; j++ {
					if observer {
						ops = append(ops, rapid.SampledFrom([]model.Op{
							{Kind: "SetFailure", Failure: "internal_server"},
							{Kind: "DescribeTable", Table: "tbl"},
							{Kind: "DescribeTable", Table: "tbl"},
							{Kind: "SetFailure", Failure: "none"},
						}).Draw(rt, "observerOp"))
						continue
					}
					in := c11In{Kind: rapid.SampledFrom([]string{"PUT", "ADD", "ADD", "DEL", "DEL", "GET"}).Draw(rt, "dataOp"),
						Key: rapid.SampledFrom(keys).Draw(rt, "key"), C: rapid.IntRange(0, 9).Draw(rt, "c")}
					ops = append(ops, c11DataOp(in))
				}
				c.Threads = append(c.Threads, ops)
			}
			shared = true
		case "data":
			used := map[string]int{}
			for i := 0; i < nThreads; i++ {
				n := rapid.IntRange(2, 10).Draw(rt, "opsPerThread")
				var ops []model.Op
				for j := 0; j < n; j++ {
					in := c11In{Kind: rapid.SampledFrom([]string{"PUT", "CPUT", "ADD", "ADD", "GET", "DEL", "CDEL"}).Draw(rt, "dataOp"),
						Key: rapid.SampledFrom(keys).Draw(rt, "key"), C: rapid.IntRange(0, 9).Draw(rt, "c")}
					ops = append(ops, c11DataOp(in))
					used[in.Key] |= 1 << uint(i)
				}
				c.Threads = append(c.Threads, ops)
			}
			for _, mask := range used {
				if mask&(mask-1) != 0 {
					shared = true
				}
			}
		default: // mixed
			for _, k := range keys {
				c.Setup = append(c.Setup, model.Op{Kind: "Put", Table: "tbl", Item: model.Item{"pk": model.Str(k), "c": model.Num("1"), "g1": model.Str("g")}})
			}
			c.Setup = append(c.Setup, model.Op{Kind: "CreateTable", Schema: sTable("second", false)},
				model.Op{Kind: "Put", Table: "second", Item: model.Item{"pk": model.Str("k1"), "c": model.Num("1")}})
			ix := &model.IndexSchema{Name: "late1", Hash: "g2", Global: true}
			for i := 0; i < nThreads; i++ {
				n := rapid.IntRange(2, 8).Draw(rt, "opsPerThread")
				var ops []model.Op
				for j := 0; j < n; j++ {
					k := rapid.SampledFrom(keys).Draw(rt, "key")
					it := model.Item{"pk": model.Str(k), "c": model.Num("1"), "g1": model.Str("g")}
					op := rapid.SampledFrom([]model.Op{
						{Kind: "Put", Table: "tbl", Item: it},
						c11DataOp(c11In{Kind: "ADD", Key: k}),
						c11DataOp(c11In{Kind: "GET", Key: k}),
						c11DataOp(c11In{Kind: "DEL", Key: k}),
						{Kind: "Scan", Table: "tbl"},
						{Kind: "Scan", Table: "tbl", Index: "gidx"},
						{Kind: "Query", Table: "tbl", Index: "gidx", KeyCond: "g1 = :g", Values: map[string]model.AV{":g": model.Str("g")}},
						{Kind: "Query", Table: "tbl", KeyCond: "pk = :h", Values: map[string]model.AV{":h": model.Str(k)}},
						{Kind: "DescribeTable", Table: "tbl"},
						{Kind: "CreateTable", Schema: sTable("other", false)},
						{Kind: "DeleteTable", Table: "other"},
						{Kind: "Put", Table: "other", Item: it},
						{Kind: "AddIndex", Table: "tbl", IndexSchema: ix, IndexAttrs: map[string]string{"g2": "S"}},
						{Kind: "DeleteIndex", Table: "tbl", Index: "late1"},
						{Kind: "ClearTable", Table: "tbl"},
						{Kind: "BatchWrite", Batch: []model.TableBatch{{Table: "tbl", Reqs: []model.WriteReq{{Put: it}, {Delete: c11Key("k3")}}}}},
						{Kind: "TransactWrite"},
						{Kind: "SetFailure", Failure: "internal_server"},
						{Kind: "SetFailure", Failure: "none"},
						{Kind: "DescribeTable", Table: "other"},
						{Kind: "DeclareAttrs", Table: "tbl", IndexAttrs: map[string]string{"g3": "S"}},
						{Kind: "DeclareAttrs", Table: "tbl", IndexAttrs: map[string]string{"g2": "S", "g4": "N"}},
						{Kind: "Scan", Table: "tbl", Filter: "c = = :one", Values: map[string]model.AV{":one": model.Num("1")}}, // does not parse: the call fails or panics (recovered), the client stays usable
						{Kind: "Query", Table: "tbl", KeyCond: "pk = :h", Filter: "c = = :one", Values: map[string]model.AV{":h": model.Str(k), ":one": model.Num("1")}},
						{Kind: "Scan", Table: "tbl", Index: "nosuchindex"},
						{Kind: "Query", Table: "tbl", Index: "nosuchindex", KeyCond: "pk = :h", Values: map[string]model.AV{":h": model.Str(k)}},
						{Kind: "NativeGet"},
						{Kind: "NativeGet"},
						{Kind: "NativeSet"},
						{Kind: "BatchWrite", Batch: []model.TableBatch{{Table: "other", Reqs: []model.WriteReq{{Put: it}}}}},
						{Kind: "BatchWrite", Batch: []model.TableBatch{{Table: "tbl", Reqs: []model.WriteReq{{Put: it}}}, {Table: "other", Reqs: []model.WriteReq{{Delete: c11Key("k2")}}}}},
					}).Draw(rt, "mixedOp")
					if j == 0 && rapid.IntRange(0, 2).Draw(rt, "startWithNativeGet") == 1 {
						op = model.Op{Kind: "NativeGet"} // several goroutines fetch the interpreter first
					}
					if rapid.IntRange(0, 39).Draw(rt, "activateNative") == 21 {
						op = model.Op{Kind: "NativeActivate"} // from here on expressions need registered callbacks: most data calls fail, none may race
					}
					if c.Client == "v2" && rapid.IntRange(0, 5).Draw(rt, "batchGet") == 0 {
						op = model.Op{Kind: "BatchGet", Consistent: rapid.Bool().Draw(rt, "consistentRead"),
							Batch: []model.TableBatch{{Table: "tbl", Keys: []model.Item{c11Key("k1"), c11Key("k2"), c11Key("k3"), c11Key("k4"), c11Key("k5")}}}}
						if rapid.Bool().Draw(rt, "twoTables") {
							op.Batch = append(op.Batch, model.TableBatch{Table: "second", Keys: []model.Item{c11Key("k1"), c11Key("k2"), c11Key("k3")}})
						}
					}
					ops = append(ops, op)
				}
				c.Threads = append(c.Threads, ops)
			}
			shared = true
		}
		if rapid.IntRange(0, 2).Draw(rt, "withPauses") > 0 || c.Flavour == "batch-failure" {
			c.Pauses = rapid.SliceOfNDistinct(rapid.IntRange(1, 40), 1, 6, rapid.ID[int]).Draw(rt, "pauses")
		}
		// always record the program before running it: a race report or a
		// fatal error ends the process
		// (once a schedule-dependent failure has been recorded, keep it: the
		// re-executions rapid performs while shrinking usually pass)
		if !c11Recorded {
			writeReplay("C11", "c11", "race detector report or process crash", "see the check log for the report", c)
		}
		info := &c11Info{}
		f := runC11(c, info)
		st.Case(shared, c)
		st.Class("flavour-" + c.Flavour)
		st.Class("client-" + c.Client)
		st.ClassN("overlapping-operation-pairs", int64(info.overlaps))
		st.ClassN("program-executions", int64(c.Runs))
		st.ClassN("batches-split-by-a-failure-switch", int64(info.partialBatches))
		if info.inconclusive != "" {
			st.Class("inconclusive: " + info.inconclusive)
		}
		if f != nil {
			stats.For("C11").Violation()
			writeReplay("C11", "c11", f.Class, f.Detail, c)
			c11Recorded = true
			rt.Logf("C11 detail: %s", f.Detail)
			rt.Fatalf("C11: %s", f.Class)
		}
		if !c11Recorded {
			os.Remove(replayOutPath("C11"))
		}
	})
}

package props

import (
	"encoding/json"
	"fmt"
	"os"
	"sort"
	"strings"
	"testing"

	"pgregory.net/rapid"

	"verifharness/gen"
	"verifharness/model"
	"verifharness/stats"
)

// c16Word: one reserved-word placement.
type c16Word struct {
	Kind   string            `json:"kind"` // cond | update
	Expr   string            `json:"expr"`
	Word   string            `json:"word"`
	Expect string            `json:"expect"` // reject | accept
	Names  map[string]string `json:"names,omitempty"`
	Item   int               `json:"item,omitempty"` // index into c16Items
	Hold   string            `json:"hold,omitempty"` // the item also holds an attribute of this name (the word itself, same spelling)
}

var c16Values = map[string]model.AV{":v": model.Str("a"), ":a": model.Str("a"), ":b": model.Str("b"), ":n": model.Num("1"), ":t": model.Str("S"), ":s": model.StrSet("x"),
	":ns": model.NumSet("1"), ":bs": model.BinSet([]byte{1})}

// c16Positions: every bare-name position; %s is the name.
var c16CondPositions = []string{
	"%s = :v", ":v = %s", "%s <> :v", "%s < :v", "attribute_exists(%s)", "attribute_not_exists(%s)", "begins_with(%s, :v)", "contains(%s, :v)",
	"size(%s) > :n", "attribute_type(%s, :t)", "%s BETWEEN :a AND :b", "%s IN (:a, :b)", "%s.k = :v", "%s[0] = :v", "NOT %s = :v", "a = :v AND %s = :v", "(%s = :v)",
	// operand positions behind another operand that may be missing from the item
	"a BETWEEN %s AND :b", "a BETWEEN :a AND %s", "a IN (:a, %s)", "begins_with(a, %s)", "contains(a, %s)", "a = %s", "a < %s",
	"a = :v OR %s = :v", "a <> :v OR attribute_exists(%s)", "NOT (a BETWEEN :a AND %s)",
	// behind NOT on the side of an OR / AND that the other side may already have decided
	"a = :v OR NOT %s = :v", "a = :v OR NOT contains(%s, :v)", "attribute_not_exists(zz) OR NOT (%s = :v)", "a = :v OR (NOT %s = :v)",
	"a <> :v AND NOT %s = :v", "attribute_exists(zz) AND %s = :v", "NOT %s = :v OR a = :v", "NOT (NOT %s = :v)",
}

// c16Items: the items every placement is evaluated against (detection must
// not depend on which other attributes the item holds).
var c16Items = []model.Item{
	{"a": model.Str("a"), "m": model.Map(map[string]model.AV{"k": model.Str("a")})},
	{},
	{"a": model.Num("1"), "m": model.Str("x")},
}
var c16NestedCondPositions = []string{"m.%s = :v", "attribute_exists(m.%s)", "m.%s.k = :v"}
var c16UpdatePositions = []string{
	"SET %s = :v", "REMOVE %s", "ADD %s :n", "DELETE %s :s", "SET a = %s", "SET a = if_not_exists(%s, :v)", "SET %s.k = :v", "SET a = :v, %s = :v", "SET a = :v REMOVE %s",
	"ADD %s :s", "ADD %s :ns", "ADD %s :bs", "DELETE %s :ns", "DELETE %s :bs", "SET a = :v ADD %s :bs", "ADD zz :n, %s :ns",
}

func caseVariants(w string) []string {
	lo := strings.ToLower(w)
	mixed := strings.ToUpper(lo[:1]) + lo[1:]
	if len(lo) > 2 {
		mixed = lo[:1] + strings.ToUpper(lo[1:2]) + lo[2:]
	}
	return []string{w, lo, mixed}
}

func runC16Word(c c16Word) *failure {
	item := model.CloneItem(c16Items[c.Item%len(c16Items)])
	if c.Hold != "" {
		item[c.Hold] = model.Str("a")
	}
	vals := map[string]model.AV{}
	for _, tok := range model.TokenTexts(c.Expr) {
		if v, ok := c16Values[tok]; ok {
			vals[tok] = v
		}
	}
	ec := exprCase{Expr: c.Expr, Item: item, Names: c.Names, Values: vals}
	var rejected, rtp bool
	var text string
	if c.Kind == "cond" {
		var o model.Outcome
		o, text, rtp = implMatch(ec)
		rejected = o == model.OE
	} else {
		_, text, rejected, rtp = implUpdate(ec)
	}
	if rtp {
		return newFail("runtime panic", "%s %q: %s", c.Kind, c.Expr, text)
	}
	if c.Expect == "reject" && !rejected {
		return newFail("reserved word accepted as a bare attribute name", "%s %q (word %s)", c.Kind, c.Expr, c.Word)
	}
	if c.Expect == "accept" && rejected && strings.Contains(strings.ToLower(text), "reserved") {
		return newFail("non-reserved name rejected as reserved", "%s %q: %s", c.Kind, c.Expr, text)
	}
	return nil
}

func init() {
	replayers["c16word"] = func(raw json.RawMessage) *failure {
		var c c16Word
		if err := json.Unmarshal(raw, &c); err != nil {
			return newFail("bad replay file", "%v", err)
		}
		return runC16Word(c)
	}
	replayers["history:C16"] = replayHistory("C16")
}

// exprKeywords are reserved words that are also keywords of the expression
// language: as bare names they cannot even be parsed.
var exprKeywords = map[string]bool{"AND": true, "OR": true, "NOT": true, "BETWEEN": true, "IN": true, "SET": true, "REMOVE": true, "ADD": true, "DELETE": true}

// exhaustiveReservedWords enumerates word x position x letter case.
func exhaustiveReservedWords(t *testing.T, st *stats.Collector) {
	n := 0
	failed := func(c c16Word, f *failure) {
		st.Violation()
		writeReplay("C16", "c16word", f.Class, f.Detail, c)
		t.Fatalf("C16: %s: %s", f.Class, f.Detail)
	}
	for _, w := range model.ReservedWords {
		for _, v := range caseVariants(w) {
			type pos struct{ kind, tmpl string }
			var all []pos
			for _, p := range c16CondPositions {
				all = append(all, pos{"cond", p})
			}
			for _, p := range c16UpdatePositions {
				all = append(all, pos{"update", p})
			}
			for _, p := range all {
				c := c16Word{Kind: p.kind, Expr: fmt.Sprintf(p.tmpl, v), Word: w, Expect: "reject"}
				for i := range c16Items {
					c.Item = i
					n++
					st.Case(true, []string{c.Kind, c.Expr, fmt.Sprint(i)})
					if f := runC16Word(c); f != nil {
						failed(c, f)
					}
				}
				// ... and against an item that really has an attribute spelled like the word
				c.Item, c.Hold = 0, v
				n++
				st.Case(true, []string{c.Kind, c.Expr, "hold"})
				if f := runC16Word(c); f != nil {
					failed(c, f)
				}
				c.Hold = ""
				// the same word behind an alias is legal
				a := c16Word{Kind: p.kind, Expr: fmt.Sprintf(p.tmpl, "#w"), Word: w, Expect: "accept", Names: map[string]string{"#w": v}}
				n++
				if f := runC16Word(a); f != nil {
					failed(a, f)
				}
				// a near-reserved neighbour is legal
				for _, nb := range []string{v + "1", v + "_x", "x" + v} {
					if model.IsReserved(nb) || exprKeywords[strings.ToUpper(nb)] {
						continue
					}
					c2 := c16Word{Kind: p.kind, Expr: fmt.Sprintf(p.tmpl, nb), Word: w, Expect: "accept"}
					n++
					if f := runC16Word(c2); f != nil {
						failed(c2, f)
					}
				}
			}
			if !open("F-RESNESTED") {
				for _, p := range c16NestedCondPositions {
					c := c16Word{Kind: "cond", Expr: fmt.Sprintf(p, v), Word: w, Expect: "reject"}
					n++
					st.Case(true, []string{c.Kind, c.Expr})
					if f := runC16Word(c); f != nil {
						failed(c, f)
					}
				}
			} else {
				st.Exclude("F-RESNESTED")
			}
		}
	}
	st.SetExtra("reserved_word_placements_enumerated", n)
	st.SetExtra("reserved_words", len(model.ReservedWords))
	st.SetExtra("exhaustive_subspace", "every reserved word x every bare-name position x {UPPER, lower, mIxed} (plus alias and near-reserved controls)")
}

const ruleC16 = "two parts. (1) Exhaustive: every word of the reserved list (573) x every bare-name position (35 condition positions: either side of a comparator, each function's path and operand arguments, every BETWEEN / IN operand, head of a dotted path, left of [i], under NOT / AND / OR / parentheses, behind NOT on the side of an OR / AND whose other side already decides the outcome, behind an operand that is missing from the item; 9 update positions: SET / REMOVE / ADD / DELETE target, SET right-hand side, if_not_exists path, head of a nested target, second action, second clause; nested path elements unless the open finding F-RESNESTED applies) x {UPPER, lower, mIxed} x four evaluated items (attributes present, absent, of another type, and an item that holds an attribute spelled exactly like the word) must be rejected by interpreter.Language; the same word behind a #alias and near-reserved neighbours (WORD1, WORD_x, xWORD) must not be rejected as reserved. (2) rapid state machine through both SDK clients against the restriction oracle of the reference model: a reserved word used behind an alias and as a bare name on one table in either order; placeholder configurations (supplied vs used #names / :values with names that are prefixes of one another, unused, undefined, malformed keys incl. a key of the other map's form; carried by Scan, Put, Delete, Update, Get / Scan / Query projections and Query, including the continuation page of a well-formed Query with the same expression texts), key-condition shapes (valid: hash equality alone or AND one sort-key condition of = < <= > >= BETWEEN begins_with, either operand order, parenthesised; invalid: missing hash equality, hash inequality, OR, NOT, non-key attribute, two sort conditions, <>, contains, size, IN), write requests that are neither / both put and delete, batch sizes 0-30 over 1-3 tables: reject -> validation-class error or documented panic and no state change; accept -> no validation error. Non-trivial = every enumerated placement, and generated requests rejected for exactly one reason or accepted while containing a near-miss; distinct = hash of the request."

// TestC16 decides property C16.
func TestC16(t *testing.T) {
	st := stats.For("C16")
	st.SetRule(ruleC16)
	if os.Getenv("VERIF_SHARD") == "" || os.Getenv("VERIF_SHARD") == "0" {
		exhaustiveReservedWords(t, st)
	}
	rapid.Check(t, func(rt *rapid.T) {
		w := newWorld("C16", worldCfg{V1: true, V2: true, WhiteBox: true})
		s := drawSchema(rt, "tbl", schemaCfg{KeyTypes: []string{"S"}, MaxIndexes: 1, ForceRange: 1})
		s2 := *sTable("tbl2", false)
		o := avOpts(1, true)
		g := newTgen(rt, s, o, 5)
		g2 := newTgen(rt, s2, o, 30)
		fail := func(f *failure) {
			if f != nil {
				failCase(rt, "C16", "history:C16", f, w.asCase())
			}
		}
		_, _, f := w.do(model.Op{Kind: "CreateTable", Schema: &s})
		fail(f)
		_, _, f = w.do(model.Op{Kind: "CreateTable", Schema: &s2})
		fail(f)
		for i := 0; i < 3; i++ {
			_, _, f = w.do(model.Op{Kind: "Put", Table: s.Table, Item: g.item(rt)})
			fail(f)
		}
		record := func(op model.Op, class string) {
			res, status, f := w.do(op)
			fail(f)
			if status != stepDone {
				return
			}
			verdict := "accepted"
			if res.Err == model.ErrCondFailed {
				verdict = "accepted(condition false)"
			} else if res.Err != "" {
				verdict = "rejected"
			}
			st.Case(true, op)
			st.Class(class + "-" + verdict)
		}
		rt.Repeat(map[string]func(*rapid.T){
			"placeholders": func(rt *rapid.T) {
				// an expression over names / values that are prefixes of one another
				names := []string{"#p", "#pk", "#pk2", "#a", "#ab", "#a_b", "#n1", "#n10", "#0", "#1", "#10", "#_", "#_1", "#007"}
				vals := []string{":p", ":pp", ":v", ":v1", ":v10", ":val", ":a", ":a_1", ":0", ":1", ":10", ":_", ":_1", ":007"}
				usedN := rapid.SliceOfNDistinct(rapid.SampledFrom(names), 0, 2, rapid.ID[string]).Draw(rt, "usedNames")
				usedV := rapid.SliceOfNDistinct(rapid.SampledFrom(vals), 1, 3, rapid.ID[string]).Draw(rt, "usedValues")
				var atoms []string
				for i, v := range usedV {
					lhs := "a"
					if i < len(usedN) {
						lhs = usedN[i]
					}
					atoms = append(atoms, lhs+" = "+v)
				}
				for i := len(usedV); i < len(usedN); i++ {
					atoms = append(atoms, "attribute_exists("+usedN[i]+")")
				}
				expr := strings.Join(atoms, " AND ")
				op := model.Op{Table: s.Table, Names: map[string]string{}, Values: map[string]model.AV{}}
				for _, n := range usedN {
					op.Names[n] = rapid.SampledFrom([]string{"a", "b", "c"}).Draw(rt, "nameTarget")
				}
				for _, v := range usedV {
					op.Values[v] = model.Str("a")
				}
				cleanNames, cleanValues := map[string]string{}, map[string]model.AV{}
				for k, v := range op.Names {
					cleanNames[k] = v
				}
				for k, v := range op.Values {
					cleanValues[k] = v
				}
				class := "placeholders-exact"
				switch rapid.IntRange(0, 6).Draw(rt, "placeholderFault") {
				case 0:
					extra := rapid.SampledFrom(names).Draw(rt, "extraName")
					if _, ok := op.Names[extra]; !ok {
						op.Names[extra] = "zz"
						class = "unused-name"
					}
				case 1:
					// (also names that only exist across the seam of two expressions of one
					// request: the end of one followed by the start of the next)
					seam := []string{usedV[0] + "a", usedV[len(usedV)-1] + "SET", ":hkva", usedV[len(usedV)-1] + s.Hash, usedV[0] + "attribute_exists"}
					extra := rapid.SampledFrom(append(append([]string{}, vals...), seam...)).Draw(rt, "extraValue")
					if _, ok := op.Values[extra]; !ok {
						op.Values[extra] = model.Str("zz")
						class = "unused-value"
					}
				case 2:
					if len(usedN) > 0 {
						delete(op.Names, usedN[0])
						class = "undefined-name"
					}
				case 3:
					delete(op.Values, usedV[0])
					class = "undefined-value"
				case 4:
					// (the last candidate is a key of the other map: well-formed there,
					// malformed here, and mentioned by the expression)
					bad := rapid.SampledFrom([]string{"p", "#", "#a-b", "#a b", "##a", "#a.b", "", usedV[0], usedV[0]}).Draw(rt, "badNameKey")
					op.Names[bad] = "a"
					class = "malformed-name-key"
				case 5:
					cands := []string{"v", ":", ":a-b", ":a b", "::a", ":a.b"}
					if len(usedN) > 0 {
						cands = append(cands, usedN[0], usedN[0])
					}
					bad := rapid.SampledFrom(cands).Draw(rt, "badValueKey")
					op.Values[bad] = model.Str("a")
					class = "malformed-value-key"
				}
				switch rapid.IntRange(0, 8).Draw(rt, "carrier") {
				case 7, 8:
					// Scan / Query whose names are used by the projection expression only
					// (no Select parameter: the projection alone asks for specific attributes)
					op.Kind, op.Values = "Scan", nil
					if rapid.Bool().Draw(rt, "projectionOnQuery") {
						op.Kind, op.KeyCond = "Query", s.Hash+" = :hkv"
						op.Values = map[string]model.AV{":hkv": c16KeyValue(w.m, s.Table, s.Hash)}
					}
					var parts []string
					for n := range op.Names {
						if validName(n) {
							parts = append(parts, n)
						}
					}
					sort.Strings(parts)
					op.Projection = strings.Join(append(parts, "a"), ", ")
					if class == "unused-value" || class == "undefined-value" || class == "malformed-value-key" || class == "undefined-name" {
						class = "placeholders-exact"
					}
					if len(usedN) == 0 && class == "placeholders-exact" {
						op.Names = nil
					}
					st.Class("names-used-by-a-projection-only")
				case 5, 6:
					// Query; in half of the cases as the continuation page of a
					// well-formed first page with the same expression texts
					op.Kind, op.Filter, op.KeyCond = "Query", expr, s.Hash+" = :hkv"
					op.Values[":hkv"] = c16KeyValue(w.m, s.Table, s.Hash)
					cleanValues[":hkv"] = op.Values[":hkv"]
					if rapid.Bool().Draw(rt, "continuationPage") {
						first := op
						first.Names, first.Values, first.Limit, first.Blind = cleanNames, cleanValues, 1, true
						if len(first.Names) == 0 {
							first.Names = nil
						}
						res, _, f := w.do(first)
						fail(f)
						if res.Err == "" && len(res.LastKey) > 0 {
							op.StartKey, op.Limit = res.LastKey, 1
							st.Class("query-continuation-page")
						}
					}
				case 4:
					// names used only by a projection expression count as used
					op.Kind, op.Key, op.Values = "Get", g.key(rt), nil
					var parts []string
					for n := range op.Names {
						if validName(n) {
							parts = append(parts, n)
						}
					}
					sort.Strings(parts)
					op.Projection = strings.Join(append(parts, "a"), ", ")
					if class == "unused-value" || class == "undefined-value" || class == "malformed-value-key" || class == "undefined-name" {
						class = "placeholders-exact"
					}
					if len(usedN) == 0 && class == "placeholders-exact" {
						op.Names = nil
					}
				case 0:
					op.Kind, op.Filter = "Scan", expr
				case 1:
					op.Kind, op.Item, op.Cond = "Put", g.item(rt), expr
				case 2:
					op.Kind, op.Key, op.Cond = "Delete", g.key(rt), expr
				default:
					op.Kind, op.Key, op.Cond, op.Update = "Update", g.key(rt), expr, "SET extra = "+usedV[0]
				}
				if len(op.Names) == 0 {
					op.Names = nil
				}
				record(op, class)
			},
			"strayPlaceholders": func(rt *rapid.T) {
				// names and / or values supplied to a request that has no expression at all
				op := model.Op{Table: s.Table}
				switch rapid.IntRange(0, 3).Draw(rt, "strayCarrier") {
				case 0:
					op.Kind, op.Item = "Put", g.item(rt)
				case 1:
					op.Kind, op.Key = "Delete", g.key(rt)
				case 2:
					op.Kind = "Scan"
				default:
					op.Kind, op.Key = "Get", g.key(rt)
				}
				class := "no-expression-no-placeholders"
				if op.Kind != "Get" && rapid.Bool().Draw(rt, "strayValue") {
					op.Values = map[string]model.AV{rapid.SampledFrom([]string{":v", ":0", ":_"}).Draw(rt, "strayValueKey"): model.Str("a")}
					class = "stray-placeholders-without-expression"
				}
				if rapid.Bool().Draw(rt, "strayName") {
					op.Names = map[string]string{rapid.SampledFrom([]string{"#a", "#0", "#_"}).Draw(rt, "strayNameKey"): "a"}
					class = "stray-placeholders-without-expression"
				}
				record(op, class)
			},
			"reservedHistory": func(rt *rapid.T) {
				// a reserved word used legally behind an alias and illegally as a bare name on
				// one table, in either order: the verdict on one use never depends on the other
				word := rapid.SampledFrom([]string{"status", "name", "count", "data", "size", "comment", "Timestamp", "USER"}).Draw(rt, "reservedWord")
				key := g.key(rt)
				aliased := model.Op{Kind: "Update", Table: s.Table, Key: key, Update: "SET #w = :v", Names: map[string]string{"#w": word}, Values: map[string]model.AV{":v": model.Str("x")}}
				bare := model.Op{Kind: "Update", Table: s.Table, Key: key, Update: "SET " + word + " = :v", Values: map[string]model.AV{":v": model.Str("y")}}
				if rapid.Bool().Draw(rt, "conditionInsteadOfUpdate") {
					bare = model.Op{Kind: "Delete", Table: s.Table, Key: key, Cond: word + " = :v", Values: map[string]model.AV{":v": model.Str("y")}}
				}
				if rapid.Bool().Draw(rt, "bareFirst") {
					record(bare, "reserved-bare-then-aliased")
					record(aliased, "reserved-bare-then-aliased")
				} else {
					record(aliased, "reserved-aliased-then-bare")
					record(bare, "reserved-aliased-then-bare")
				}
			},
			"keyCondition": func(rt *rapid.T) {
				hv := c16KeyValue(w.m, s.Table, s.Hash)
				c := gen.NewExprCtx(nil, o).Style(rt)
				h := func() model.Expr { return model.Path{Elems: []model.PathElem{{Name: c.NameTok(rt, s.Hash)}}} }
				r := func() model.Expr { return model.Path{Elems: []model.PathElem{{Name: c.NameTok(rt, s.Range)}}} }
				val := func() model.Expr {
					return c.Val(model.Str(rapid.SampledFrom([]string{"a", "b", "ab", ""}).Draw(rt, "kcVal")))
				}
				heq := model.Expr(model.Cmp{Op: "=", L: h(), R: c.Val(hv)})
				sortConds := []func() model.Expr{
					func() model.Expr {
						return model.Cmp{Op: rapid.SampledFrom([]string{"=", "<", "<=", ">", ">="}).Draw(rt, "kcOp"), L: r(), R: val()}
					},
					func() model.Expr { return model.Between{V: r(), Lo: c.Val(model.Str("a")), Hi: c.Val(model.Str("b"))} },
					func() model.Expr { return model.Func{Name: "begins_with", Args: []model.Expr{r(), val()}} },
				}
				var kc model.Expr
				class := "keycond-valid"
				switch rapid.IntRange(0, 13).Draw(rt, "kcShape") {
				case 0:
					kc = heq
				case 1, 2:
					kc = model.Logic{Op: "AND", L: heq, R: rapid.SampledFrom(sortConds).Draw(rt, "sortCond")()}
				case 3:
					kc = model.Logic{Op: "AND", L: rapid.SampledFrom(sortConds).Draw(rt, "sortCond")(), R: model.Cmp{Op: "=", L: c.Val(hv), R: h()}}
				case 4:
					kc = model.Paren{X: model.Logic{Op: "AND", L: model.Paren{X: heq}, R: model.Paren{X: sortConds[0]()}}}
				case 5:
					kc, class = sortConds[0](), "keycond-no-hash-equality"
				case 6:
					kc, class = model.Cmp{Op: rapid.SampledFrom([]string{"<", ">", "<>"}).Draw(rt, "hashOp"), L: h(), R: c.Val(hv)}, "keycond-hash-inequality"
				case 7:
					kc, class = model.Logic{Op: "OR", L: heq, R: sortConds[0]()}, "keycond-or"
				case 8:
					kc, class = model.Logic{Op: "AND", L: heq, R: model.Not{X: sortConds[0]()}}, "keycond-not"
				case 9:
					kc, class = model.Logic{Op: "AND", L: heq, R: model.Cmp{Op: "=", L: model.Path{Elems: []model.PathElem{{Name: "a"}}}, R: val()}}, "keycond-non-key-attribute"
				case 10:
					kc, class = model.Logic{Op: "AND", L: model.Logic{Op: "AND", L: heq, R: sortConds[0]()}, R: sortConds[0]()}, "keycond-two-sort-conditions"
				case 11:
					kc, class = model.Logic{Op: "AND", L: heq, R: model.Cmp{Op: "<>", L: r(), R: val()}}, "keycond-sort-not-equal"
				case 12:
					kc, class = model.Logic{Op: "AND", L: heq, R: model.Func{Name: "contains", Args: []model.Expr{r(), val()}}}, "keycond-contains"
				default:
					kc, class = model.Logic{Op: "AND", L: heq, R: model.In{V: r(), List: []model.Expr{val()}}}, "keycond-in"
				}
				op := normOp(model.Op{Kind: "Query", Table: s.Table, KeyCond: model.Render(kc), Names: c.Names, Values: c.Values})
				record(op, class)
			},
			"batch": func(rt *rapid.T) {
				n := rapid.SampledFrom([]int{0, 1, 2, 10, 24, 25, 26, 27, 30}).Draw(rt, "batchSize")
				op := model.Op{Kind: "BatchWrite"}
				tb1, tb2 := model.TableBatch{Table: s.Table}, model.TableBatch{Table: s2.Table}
				seen := map[string]bool{}
				for i := 0; i < n; i++ {
					it := model.Item{"pk": model.Str(fmt.Sprintf("k%02d", i)), "v": model.Num("1")}
					if rapid.IntRange(0, 3).Draw(rt, "onTable1") == 0 {
						it1 := g.item(rt)
						k := w.m.Tables[s.Table].KeyItem(it1)
						if ck := model.CanonItem(k); !seen[ck] {
							seen[ck] = true
							tb1.Reqs = append(tb1.Reqs, model.WriteReq{Put: it1})
							continue
						}
					}
					if rapid.IntRange(0, 4).Draw(rt, "asDelete") == 0 {
						tb2.Reqs = append(tb2.Reqs, model.WriteReq{Delete: model.Item{"pk": it["pk"]}})
					} else {
						tb2.Reqs = append(tb2.Reqs, model.WriteReq{Put: it})
					}
				}
				class := fmt.Sprintf("batch-size-%d", n)
				switch rapid.IntRange(0, 7).Draw(rt, "malformedRequest") {
				case 0:
					tb2.Reqs = append(tb2.Reqs, model.WriteReq{Neither: true})
					class = "write-request-neither"
				case 1:
					// (both members present; one of them may be empty)
					both := model.WriteReq{Both: true, Put: model.Item{"pk": model.Str("both")}, Delete: model.Item{"pk": model.Str("both")}}
					switch rapid.IntRange(0, 4).Draw(rt, "bothShape") {
					case 1:
						both.Delete = nil
					case 2:
						both.Delete = model.Item{}
					case 3:
						both.Put = nil
					}
					tb2.Reqs = append(tb2.Reqs, both)
					class = "write-request-both"
				}
				if len(tb1.Reqs) > 0 {
					op.Batch = append(op.Batch, tb1)
				}
				if len(tb2.Reqs) > 0 {
					op.Batch = append(op.Batch, tb2)
				}
				_ = g2
				record(op, class)
			},
			"": func(rt *rapid.T) { fail(w.check()) },
		})
	})
}

func validName(n string) bool {
	if len(n) < 2 || n[0] != '#' {
		return false
	}
	for i := 1; i < len(n); i++ {
		c := n[i]
		if !(c >= 'a' && c <= 'z' || c >= 'A' && c <= 'Z' || c >= '0' && c <= '9' || c == '_') {
			return false
		}
	}
	return true
}

func c16KeyValue(db *model.DB, table, attr string) model.AV {
	for _, it := range db.Tables[table].View("") {
		return it[attr].Clone()
	}
	return model.Str("a")
}

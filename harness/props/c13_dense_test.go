package props

import (
	"encoding/json"
	"fmt"
	"sort"

	"pgregory.net/rapid"

	"verifharness/drv"
	"verifharness/model"
	"verifharness/stats"
)

// c13Dense: every key over a small hostile alphabet. The key space
// {strings of length 1..MaxLen over Alphabet} (x itself for hash+range tables)
// is stored completely, each key with its own payload, then read back.
type c13Dense struct {
	HashType      string   `json:"hashType"`
	RangeType     string   `json:"rangeType,omitempty"` // "" = hash-only table
	Alphabet      []string `json:"alphabet"`            // one-character strings (S and B parts)
	MaxLen        int      `json:"maxLen"`
	Nums          []string `json:"nums,omitempty"`          // the values of N parts
	Keep          int      `json:"keep,omitempty"`          // which member of a group of keys that collide by an open finding is kept
	NoFirstVerify bool     `json:"noFirstVerify,omitempty"` // delete right after the puts, without a read in between
}

// denseChars: the separator and escape characters a key encoding is likely to
// use, plus ordinary ones.
var denseChars = []string{".", "\\", "|", "/", ":", "#", ",", ";", " ", "\x00", "\x01", "[", "]", "%", "_", "-", "0", "1", "a", "b", "é", "\xff", "\xfe", "\x0a", "\x10", "\x12", "\x23", "\xab"}

// denseNums: distinct numbers in canonical plain notation, with neighbours
// that differ far beyond float32 / float64 / six-decimal precision.
var denseNums = []string{"0", "1", "-1", "10", "0.5", "0.000000476837158203125", "0.500000476837158203125", "0.1", "0.10000000000000000001",
	"9007199254740992", "9007199254740993", "-9007199254740993", "18446744073709551616", "18446744073709551617",
	"12345678901234567890123456789012345678", "12345678901234567890123456789012345679", "0.0000001", "0.00000011",
	// other notations, each of a value of its own (no two entries are equal as numbers)
	"2", "20.0", "200", "3", "300.00", "30", "1e2", "1E3", "0040", "4", "5.50", "55", "7e-1", "07", "8.0e0", "80", "1.50e1", "150e-2",
	// signed exponents and a leading plus sign in the exponent
	"6e+1", "6.5E+2", "9E+0", "11e+1", "1.25e+3", "13E-1"}

func denseValues(ty string, c c13Dense) []model.AV {
	if ty == "N" {
		var out []model.AV
		for _, n := range c.Nums {
			out = append(out, model.Num(n))
		}
		return out
	}
	var strs []string
	level := []string{""}
	for l := 0; l < c.MaxLen; l++ {
		var next []string
		for _, p := range level {
			for _, ch := range c.Alphabet {
				next = append(next, p+ch)
			}
		}
		strs = append(strs, next...)
		level = next
	}
	var out []model.AV
	for _, s := range strs {
		if ty == "B" {
			out = append(out, model.Bin([]byte(s)))
		} else {
			out = append(out, model.Str(s))
		}
	}
	return out
}

type c13DenseInfo struct{ keys, excluded int }

func runC13Dense(c c13Dense, info *c13DenseInfo) *failure {
	s := model.Schema{Table: "dense", Hash: "pk", Attrs: map[string]string{"pk": c.HashType}, Billing: "PAY_PER_REQUEST"}
	if c.RangeType != "" {
		s.Range = "sk"
		s.Attrs["sk"] = c.RangeType
	}
	var keys []model.Item
	for _, h := range denseValues(c.HashType, c) {
		if c.RangeType == "" {
			keys = append(keys, model.Item{"pk": h})
			continue
		}
		for _, r := range denseValues(c.RangeType, c) {
			keys = append(keys, model.Item{"pk": h.Clone(), "sk": r})
		}
	}
	// open finding F-KEYCOLLIDE: keys whose "."-joined renderings coincide are
	// known to collide; one member of each such group is kept (which one is
	// part of the case), the others are left out
	if open("F-KEYCOLLIDE") {
		groups := map[string][]int{}
		for i, k := range keys {
			r := implKey(k, s.Hash, s.Range)
			groups[r] = append(groups[r], i)
		}
		var kept []model.Item
		for i, k := range keys {
			g := groups[implKey(k, s.Hash, s.Range)]
			if len(g) > 1 && g[c.Keep%len(g)] != i {
				info.excluded++
				continue
			}
			kept = append(kept, k)
		}
		keys = kept
	}
	info.keys = len(keys)
	payload := func(i int) model.AV { return model.Str(fmt.Sprintf("payload-%d", i)) }
	for _, d := range []drv.Real{drv.NewV1(), drv.NewV2()} {
		if r := d.Apply(model.Op{Kind: "CreateTable", Schema: &s}); r.Err != "" {
			return newFail("dense: create table failed", "%s: %s %s", d.Name(), r.Err, r.ErrText)
		}
		for i, k := range keys {
			it := model.CloneItem(k)
			it["v"] = payload(i)
			if r := d.Apply(model.Op{Kind: "Put", Table: s.Table, Item: it}); r.Err != "" {
				return newFail("dense: put of a well-formed key failed", "%s key %s: %s %s", d.Name(), model.CanonItem(k), r.Err, r.ErrText)
			}
		}
		verify := func(deleted func(i int) bool, stage string) *failure {
			live := 0
			for i, k := range keys {
				r := d.Apply(model.Op{Kind: "Get", Table: s.Table, Key: k})
				if r.Err != "" {
					return newFail("dense: get failed", "%s %s key %s: %s %s", d.Name(), stage, model.CanonItem(k), r.Err, r.ErrText)
				}
				var want model.Item
				if !deleted(i) {
					want = model.CloneItem(k)
					want["v"] = payload(i)
					live++
				}
				if !model.ItemEqual(want, r.Item) {
					return newFail("distinct keys collide", "%s %s key %s: want %s got %s", d.Name(), stage, model.CanonItem(k), model.CanonItem(want), model.CanonItem(r.Item))
				}
			}
			sc := d.Apply(model.Op{Kind: "Scan", Table: s.Table})
			if sc.Err != "" {
				return newFail("dense: scan failed", "%s %s: %s", d.Name(), stage, sc.Err)
			}
			if len(sc.Items) != live {
				return newFail("distinct keys collide", "%s %s: %d items stored, scan returns %d", d.Name(), stage, live, len(sc.Items))
			}
			return nil
		}
		if !c.NoFirstVerify {
			if f := verify(func(int) bool { return false }, "after puts"); f != nil {
				return f
			}
		}
		// delete every third key: the neighbours must survive
		for i, k := range keys {
			if i%3 == 1 {
				if r := d.Apply(model.Op{Kind: "Delete", Table: s.Table, Key: k}); r.Err != "" {
					return newFail("dense: delete failed", "%s key %s: %s", d.Name(), model.CanonItem(k), r.Err)
				}
			}
		}
		if f := verify(func(i int) bool { return i%3 == 1 }, "after deletes"); f != nil {
			return f
		}
	}
	return nil
}

func init() {
	replayers["c13dense"] = func(raw json.RawMessage) *failure {
		var c c13Dense
		if err := json.Unmarshal(raw, &c); err != nil {
			return newFail("bad replay file", "%v", err)
		}
		return runC13Dense(c, &c13DenseInfo{})
	}
}

// propC13Dense draws one dense key space and checks it.
func propC13Dense(rt *rapid.T, st *stats.Collector) {
	types := []string{"S", "S", "B", "N"}
	c := c13Dense{HashType: rapid.SampledFrom(types).Draw(rt, "denseHashType")}
	if rapid.IntRange(0, 3).Draw(rt, "denseHashOnly") != 0 {
		c.RangeType = rapid.SampledFrom(types).Draw(rt, "denseRangeType")
	}
	if rapid.IntRange(0, 2).Draw(rt, "denseAnyAlphabet") == 0 {
		c.Alphabet = rapid.SliceOfNDistinct(rapid.SampledFrom(denseChars), 2, 3, rapid.ID[string]).Draw(rt, "denseAlphabet")
	} else {
		// the separator the implementation joins key parts with, plus one or
		// two characters biased to the ones an escaping scheme would use
		others := []string{"\\", "\\", "\\", "\\", "|", "|", "%", "%", "/", ":", "#", "\x00", " ", "[", "]", "_", "a", "a", "0", "é"}
		c.Alphabet = append([]string{"."}, rapid.SliceOfNDistinct(rapid.SampledFrom(others), 1, 2, rapid.ID[string]).Draw(rt, "denseAlphabetRest")...)
	}
	if (c.HashType == "B" || c.RangeType == "B") && c.HashType != "S" && c.RangeType != "S" && rapid.Bool().Draw(rt, "denseByteAlphabet") {
		// binary parts only: bytes below 0x10, nibble-swapped pairs, the separator byte
		if rapid.Bool().Draw(rt, "denseNibbleFamily") {
			// {00, 0n, n0}: renderings that drop leading zeros or padding merge (0n 00) with (n0)
			n := rapid.IntRange(1, 15).Draw(rt, "denseNibble")
			c.Alphabet = []string{"\x00", string([]byte{byte(n)}), string([]byte{byte(n << 4)})}
		} else {
			c.Alphabet = rapid.SliceOfNDistinct(rapid.SampledFrom([]string{"\x00", "\x01", "\x02", "\x03", "\x0a", "\x0c", "\x10", "\x12", "\x20", "\x23", "\x2e", "\xab", "\xbc", "\xff"}), 2, 3, rapid.ID[string]).Draw(rt, "denseBytes")
		}
	}
	c.MaxLen = rapid.IntRange(2, 3).Draw(rt, "denseMaxLen")
	if c.HashType == "N" || c.RangeType == "N" {
		c.Nums = rapid.SliceOfNDistinct(rapid.SampledFrom(denseNums), 4, 10, rapid.ID[string]).Draw(rt, "denseNums")
		sort.Strings(c.Nums)
	}
	c.Keep = rapid.IntRange(0, 5).Draw(rt, "denseKeep")
	c.NoFirstVerify = rapid.IntRange(0, 2).Draw(rt, "denseNoFirstVerify") == 1
	pending("C13", "c13dense", c)
	info := &c13DenseInfo{}
	f := runC13Dense(c, info)
	st.Case(info.keys >= 2, c)
	st.Class("dense-key-space")
	st.ClassN("dense-keys-stored-and-read-back", int64(info.keys))
	for i := 0; i < info.excluded; i++ {
		st.Exclude("F-KEYCOLLIDE")
	}
	if f != nil {
		failCase(rt, "C13", "c13dense", f, c)
	}
}

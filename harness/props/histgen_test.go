package props

import (
	"fmt"
	"sort"

	"pgregory.net/rapid"

	"verifharness/gen"
	"verifharness/model"
)

// schemaCfg tunes the table-schema generator.
type schemaCfg struct {
	KeyTypes   []string // allowed key attribute types
	MaxIndexes int
	ForceRange int // -1 never, 0 random, 1 always
	MinIndexes int
}

var indexAttrPool = []string{"g1", "g2", "r1", "r2"}

// drawSchema draws a valid table schema: hash-only or hash+range, 0..MaxIndexes
// secondary indexes (global and local, hash-only and hash+range) that share
// attributes with each other and with the table key.
func drawSchema(rt *rapid.T, name string, cfg schemaCfg) model.Schema {
	if len(cfg.KeyTypes) == 0 {
		cfg.KeyTypes = []string{"S"}
	}
	s := model.Schema{Table: name, Hash: "pk", Attrs: map[string]string{}}
	s.Attrs["pk"] = rapid.SampledFrom(cfg.KeyTypes).Draw(rt, "hashType")
	hasRange := cfg.ForceRange == 1 || cfg.ForceRange == 0 && rapid.Bool().Draw(rt, "hasRange")
	if hasRange {
		s.Range = "sk"
		s.Attrs["sk"] = rapid.SampledFrom(cfg.KeyTypes).Draw(rt, "rangeType")
	}
	if rapid.Bool().Draw(rt, "payPerRequest") {
		s.Billing = "PAY_PER_REQUEST"
		s.NoThroughput = rapid.Bool().Draw(rt, "omitThroughput")
	} else {
		s.Billing = "PROVISIONED"
	}
	n := rapid.IntRange(cfg.MinIndexes, cfg.MaxIndexes).Draw(rt, "nIndexes")
	for i := 0; i < n; i++ {
		ix := model.IndexSchema{Name: fmt.Sprintf("idx%d", i+1)}
		ix.Global = !hasRange || rapid.IntRange(0, 2).Draw(rt, "global") > 0
		if ix.Global {
			cands := append([]string{}, indexAttrPool...)
			if hasRange {
				cands = append(cands, "sk")
			}
			ix.Hash = rapid.SampledFrom(cands).Draw(rt, "ixHash")
			if rapid.Bool().Draw(rt, "ixHasRange") {
				rc := append(append([]string{}, indexAttrPool...), "pk")
				ix.Range = rapid.SampledFrom(rc).Filter(func(a string) bool { return a != ix.Hash }).Draw(rt, "ixRange")
			}
			if s.Billing == "PAY_PER_REQUEST" {
				ix.NoThroughput = rapid.Bool().Draw(rt, "ixOmitThroughput")
			}
		} else {
			ix.Hash = "pk"
			ix.Range = rapid.SampledFrom(indexAttrPool).Draw(rt, "lsiRange")
		}
		for _, a := range []string{ix.Hash, ix.Range} {
			if a == "" {
				continue
			}
			if _, ok := s.Attrs[a]; !ok {
				ty := "S"
				if len(cfg.KeyTypes) > 1 && rapid.IntRange(0, 3).Draw(rt, "ixAttrType") == 0 {
					ty = rapid.SampledFrom(cfg.KeyTypes).Draw(rt, "ixAttrTy")
				}
				s.Attrs[a] = ty
			}
		}
		s.Indexes = append(s.Indexes, ix)
	}
	return s
}

// tgen generates items and requests for one table.
type tgen struct {
	s                  model.Schema
	keys               []model.Item
	ixVals             map[string][]model.AV
	o                  gen.AVOpts
	maxAttrs           int
	wrongTypeIndexKeys bool     // sometimes give an index key attribute the wrong type
	attrNames          []string // pool of non-key attribute names (default gen.AttrNames)
}

func keyOpts(o gen.AVOpts) gen.AVOpts {
	ko := o
	if open("F-NUMKEYTEXT") {
		ko.CanonNumerals = true
	}
	if open("F-FLOAT") {
		ko.FloatExact = true
	}
	return ko
}

func drawKeyValue(rt *rapid.T, typ string, o gen.AVOpts, label string) model.AV {
	ko := keyOpts(o)
	switch typ {
	case "N":
		return model.Num(gen.Numeral(rt, ko, label))
	case "B":
		return model.Bin(gen.Bytes(false).Draw(rt, label))
	}
	return model.Str(gen.NonEmptyStr(o.ASCII).Draw(rt, label))
}

func newTgen(rt *rapid.T, s model.Schema, o gen.AVOpts, poolSize int) *tgen {
	g := &tgen{s: s, o: o, ixVals: map[string][]model.AV{}, maxAttrs: 4}
	// few hash values so that partitions hold several items
	nh := rapid.IntRange(1, 3).Draw(rt, "nHash")
	var hashes []model.AV
	for i := 0; i < nh; i++ {
		hashes = append(hashes, drawKeyValue(rt, s.Attrs[s.Hash], o, "poolHash"))
	}
	seen := map[string]bool{}
	for i := 0; len(g.keys) < poolSize && i < poolSize*4; i++ {
		k := model.Item{}
		if s.Range == "" {
			k[s.Hash] = drawKeyValue(rt, s.Attrs[s.Hash], o, "poolKey")
		} else {
			k[s.Hash] = rapid.SampledFrom(hashes).Draw(rt, "poolKeyHash").Clone()
			k[s.Range] = drawKeyValue(rt, s.Attrs[s.Range], o, "poolKeyRange")
		}
		c := model.CanonItem(k)
		if !seen[c] {
			seen[c] = true
			g.keys = append(g.keys, k)
		}
	}
	for _, ix := range s.Indexes {
		for _, a := range []string{ix.Hash, ix.Range} {
			if a == "" || a == s.Hash || a == s.Range {
				continue
			}
			if _, ok := g.ixVals[a]; ok {
				continue
			}
			n := rapid.IntRange(2, 3).Draw(rt, "nIxVals")
			for i := 0; i < n; i++ {
				g.ixVals[a] = append(g.ixVals[a], drawKeyValue(rt, s.Attrs[a], o, "ixVal"))
			}
		}
	}
	return g
}

func (g *tgen) ixAttrs() []string {
	out := make([]string, 0, len(g.ixVals))
	for a := range g.ixVals {
		out = append(out, a)
	}
	sort.Strings(out)
	return out
}

func (g *tgen) key(rt *rapid.T) model.Item {
	return model.CloneItem(rapid.SampledFrom(g.keys).Draw(rt, "key"))
}

// item draws a full item for one of the pool keys.
func (g *tgen) item(rt *rapid.T) model.Item {
	names := g.attrNames
	if names == nil {
		names = gen.AttrNames
	}
	it := gen.AttrsNamed(rt, g.o, g.maxAttrs, names, "attrs")
	for _, a := range g.ixAttrs() {
		switch r := rapid.IntRange(0, 9).Draw(rt, "ixAttrMode"); {
		case r < 6:
			it[a] = rapid.SampledFrom(g.ixVals[a]).Draw(rt, "ixAttrVal").Clone()
		case r == 9 && g.wrongTypeIndexKeys:
			if g.s.Attrs[a] == "S" {
				it[a] = model.Num("7")
			} else {
				it[a] = model.Str("wrong")
			}
		default:
			delete(it, a)
		}
	}
	for k, v := range g.key(rt) {
		it[k] = v
	}
	return it
}

// stored returns the model's stored item for a key (nil if absent).
func stored(db *model.DB, table string, key model.Item) model.Item {
	t := db.Tables[table]
	if t == nil {
		return nil
	}
	ck, ok := t.KeyOf(key)
	if !ok {
		return nil
	}
	return t.Items[ck]
}

// updateOp draws an UpdateItem for a pool key against the current model state.
func (g *tgen) updateOp(rt *rapid.T, db *model.DB, illTyped int) model.Op {
	key := g.key(rt)
	cur := stored(db, g.s.Table, key)
	base := cur
	if base == nil {
		base = key
	}
	c := gen.NewExprCtx(base, g.o)
	cfg := gen.UpdateCfg{MaxActions: 3, KeyAttrs: g.s.KeyAttrs(), ExtraTargets: g.ixAttrs(), ExtraValues: g.ixVals, IllTyped: illTyped}
	u := c.Update(rt, cfg)
	return model.Op{Kind: "Update", Table: g.s.Table, Key: key, Update: model.RenderUpdate(u), Names: c.Names, Values: c.Values}
}

func emptyToNil(m map[string]string) map[string]string {
	if len(m) == 0 {
		return nil
	}
	return m
}

// pruneUnused drops placeholders that no expression of the request uses
// (generators may allocate aliases for operands they end up not using).
func pruneUnused(names map[string]string, values map[string]model.AV, exprs ...string) (map[string]string, map[string]model.AV) {
	used := tokensOf(exprs...)
	for k := range names {
		if !used[k] {
			delete(names, k)
		}
	}
	for k := range values {
		if !used[k] {
			delete(values, k)
		}
	}
	return names, values
}

func normOp(op model.Op) model.Op {
	op.Names, op.Values = pruneUnused(op.Names, op.Values, op.Cond, op.Update, op.KeyCond, op.Filter, op.Projection)
	if len(op.Names) == 0 {
		op.Names = nil
	}
	if len(op.Values) == 0 {
		op.Values = nil
	}
	return op
}

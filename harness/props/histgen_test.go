package props

import (
	"fmt"
	"sort"

	"pgregory.net/rapid"

	"verifharness/gen"
	"verifharness/model"
)

// schemaCfg tunes the table-schema generator.
type schemaCfg struct {
	KeyTypes   []string // allowed key attribute types
	MaxIndexes int
	ForceRange int // -1 never, 0 random, 1 always
	MinIndexes int
}

var indexAttrPool = []string{"g1", "g2", "r1", "r2"}

// drawSchema draws a valid table schema: hash-only or hash+range, 0..MaxIndexes
// secondary indexes (global and local, hash-only and hash+range) that share
// attributes with each other and with the table key.
func drawSchema(rt *rapid.T, name string, cfg schemaCfg) model.Schema {
	if len(cfg.KeyTypes) == 0 {
		cfg.KeyTypes = []string{"S"}
	}
	s := model.Schema{Table: name, Hash: "pk", Attrs: map[string]string{}}
	s.Attrs["pk"] = rapid.SampledFrom(cfg.KeyTypes).Draw(rt, "hashType")
	hasRange := cfg.ForceRange == 1 || cfg.ForceRange == 0 && rapid.Bool().Draw(rt, "hasRange")
	if hasRange {
		s.Range = "sk"
		s.Attrs["sk"] = rapid.SampledFrom(cfg.KeyTypes).Draw(rt, "rangeType")
	}
	if rapid.Bool().Draw(rt, "payPerRequest") {
		s.Billing = "PAY_PER_REQUEST"
		s.NoThroughput = rapid.Bool().Draw(rt, "omitThroughput")
	} else {
		s.Billing = "PROVISIONED"
	}
	n := rapid.IntRange(cfg.MinIndexes, cfg.MaxIndexes).Draw(rt, "nIndexes")
	for i := 0; i < n; i++ {
		ix := model.IndexSchema{Name: fmt.Sprintf("idx%d", i+1)}
		ix.Global = !hasRange || rapid.IntRange(0, 2).Draw(rt, "global") > 0
		if ix.Global {
			cands := append([]string{}, indexAttrPool...)
			if hasRange {
				cands = append(cands, "sk")
			}
			ix.Hash = rapid.SampledFrom(cands).Draw(rt, "ixHash")
			if rapid.Bool().Draw(rt, "ixHasRange") {
				rc := append(append([]string{}, indexAttrPool...), "pk")
				ix.Range = rapid.SampledFrom(rc).Filter(func(a string) bool { return a != ix.Hash }).Draw(rt, "ixRange")
			}
			if s.Billing == "PAY_PER_REQUEST" {
				ix.NoThroughput = rapid.Bool().Draw(rt, "ixOmitThroughput")
			}
		} else {
			ix.Hash = "pk"
			ix.Range = rapid.SampledFrom(indexAttrPool).Draw(rt, "lsiRange")
		}
		for _, a := range []string{ix.Hash, ix.Range} {
			if a == "" {
				continue
			}
			if _, ok := s.Attrs[a]; !ok {
				ty := "S"
				if len(cfg.KeyTypes) > 1 && rapid.IntRange(0, 3).Draw(rt, "ixAttrType") == 0 {
					ty = rapid.SampledFrom(cfg.KeyTypes).Draw(rt, "ixAttrTy")
				}
				s.Attrs[a] = ty
			}
		}
		s.Indexes = append(s.Indexes, ix)
	}
	return s
}

// tgen generates items and requests for one table.
type tgen struct {
	failClasses        []string // failingOp draws from these classes (nil: all)
	bigNums            bool     // the number-typed key parts differ only beyond float64 precision (useBigNumberKeys)
	redeclare          bool     // lateIndexOp may re-declare the type of an index key attribute
	s                  model.Schema
	keys               []model.Item
	ixVals             map[string][]model.AV
	o                  gen.AVOpts
	maxAttrs           int
	wrongTypeIndexKeys bool     // sometimes give an index key attribute the wrong type
	attrNames          []string // pool of non-key attribute names (default gen.AttrNames)
}

func keyOpts(o gen.AVOpts) gen.AVOpts {
	ko := o
	if open("F-NUMKEYTEXT") {
		ko.CanonNumerals = true
	}
	if open("F-FLOAT") {
		ko.FloatExact = true
	}
	return ko
}

func drawKeyValue(rt *rapid.T, typ string, o gen.AVOpts, label string) model.AV {
	ko := keyOpts(o)
	switch typ {
	case "N":
		return model.Num(gen.Numeral(rt, ko, label))
	case "B":
		return model.Bin(gen.Bytes(false).Draw(rt, label))
	}
	return model.Str(gen.NonEmptyStr(o.ASCII).Draw(rt, label))
}

func newTgen(rt *rapid.T, s model.Schema, o gen.AVOpts, poolSize int) *tgen {
	g := &tgen{s: s, o: o, ixVals: map[string][]model.AV{}, maxAttrs: 4}
	// few hash values so that partitions hold several items
	nh := rapid.IntRange(1, 3).Draw(rt, "nHash")
	var hashes []model.AV
	for i := 0; i < nh; i++ {
		hashes = append(hashes, drawKeyValue(rt, s.Attrs[s.Hash], o, "poolHash"))
	}
	if s.Attrs[s.Hash] == "S" && s.Range != "" && nh >= 2 && rapid.IntRange(0, 3).Draw(rt, "dottedHash") == 2 {
		// a partition whose name extends another's by ".x": in a store that joins
		// hash and sort key with "." the two partitions interleave
		hashes[1] = model.Str(hashes[0].S + "." + rapid.SampledFrom([]string{"m", "eu", "b", "1"}).Draw(rt, "dottedHashSuffix"))
	}
	seen := map[string]bool{}
	for i := 0; len(g.keys) < poolSize && i < poolSize*4; i++ {
		k := model.Item{}
		if s.Range == "" {
			k[s.Hash] = drawKeyValue(rt, s.Attrs[s.Hash], o, "poolKey")
		} else {
			k[s.Hash] = rapid.SampledFrom(hashes).Draw(rt, "poolKeyHash").Clone()
			k[s.Range] = drawKeyValue(rt, s.Attrs[s.Range], o, "poolKeyRange")
		}
		c := model.CanonItem(k)
		if !seen[c] {
			seen[c] = true
			g.keys = append(g.keys, k)
		}
	}
	for _, ix := range s.Indexes {
		for _, a := range []string{ix.Hash, ix.Range} {
			if a == "" || a == s.Hash || a == s.Range {
				continue
			}
			if _, ok := g.ixVals[a]; ok {
				continue
			}
			n := rapid.IntRange(2, 3).Draw(rt, "nIxVals")
			for i := 0; i < n; i++ {
				g.ixVals[a] = append(g.ixVals[a], drawKeyValue(rt, s.Attrs[a], o, "ixVal"))
			}
		}
	}
	return g
}

func (g *tgen) ixAttrs() []string {
	out := make([]string, 0, len(g.ixVals))
	for a := range g.ixVals {
		out = append(out, a)
	}
	sort.Strings(out)
	return out
}

func (g *tgen) key(rt *rapid.T) model.Item {
	return model.CloneItem(rapid.SampledFrom(g.keys).Draw(rt, "key"))
}

// useBigNumberKeys replaces the number-typed parts of the pool keys by numbers
// that differ only beyond float64 precision (adjacent integers above 2^53, long
// fractions). No expression may run on such a table while F-FLOAT is open.
func (g *tgen) useBigNumberKeys(rt *rapid.T) {
	bigPool := []string{"9007199254740993", "9007199254740992", "9007199254740994", "12345678901234567890123456789012345678", "12345678901234567890123456789012345679",
		"0.1234567890123456789", "0.1234567890123456788", "-9007199254740993", "18446744073709551616", "18446744073709551617"}
	seen := map[string]bool{}
	var keys []model.Item
	for _, k := range g.keys {
		for _, a := range g.s.KeyAttrs() {
			if g.s.Attrs[a] == "N" {
				k[a] = model.Num(rapid.SampledFrom(bigPool).Draw(rt, "bigKeyPart"))
			}
		}
		if c := model.CanonItem(k); !seen[c] {
			seen[c] = true
			keys = append(keys, k)
		}
	}
	g.keys = keys
	g.bigNums = true
}

// item draws a full item for one of the pool keys.
func (g *tgen) item(rt *rapid.T) model.Item {
	names := g.attrNames
	if names == nil {
		names = gen.AttrNames
	}
	it := gen.AttrsNamed(rt, g.o, g.maxAttrs, names, "attrs")
	for _, a := range g.ixAttrs() {
		switch r := rapid.IntRange(0, 9).Draw(rt, "ixAttrMode"); {
		case r < 6:
			it[a] = rapid.SampledFrom(g.ixVals[a]).Draw(rt, "ixAttrVal").Clone()
		case r == 9 && g.wrongTypeIndexKeys:
			if g.s.Attrs[a] == "S" {
				it[a] = model.Num("7")
			} else {
				it[a] = model.Str("wrong")
			}
		default:
			delete(it, a)
		}
	}
	// an attribute named like a value placeholder the expression generator allocates
	// (":v1" in an expression is the request's value, whatever the item holds)
	if rapid.IntRange(0, 29).Draw(rt, "valueNamedAttr") == 13 {
		it[rapid.SampledFrom([]string{":v1", ":v2", ":1", ":_1"}).Draw(rt, "valueNamedK")] = gen.AV(rt, g.o, "valueNamedV")
	}
	for k, v := range g.key(rt) {
		it[k] = v
	}
	return it
}

// stored returns the model's stored item for a key (nil if absent).
func stored(db *model.DB, table string, key model.Item) model.Item {
	t := db.Tables[table]
	if t == nil {
		return nil
	}
	ck, ok := t.KeyOf(key)
	if !ok {
		return nil
	}
	return t.Items[ck]
}

// updateOp draws an UpdateItem for a pool key against the current model state.
func (g *tgen) updateOp(rt *rapid.T, db *model.DB, illTyped int) model.Op {
	key := g.key(rt)
	cur := stored(db, g.s.Table, key)
	base := cur
	if base == nil {
		base = key
	}
	c := gen.NewExprCtx(base, g.o).Style(rt)
	cfg := gen.UpdateCfg{MaxActions: 3, KeyAttrs: g.s.KeyAttrs(), ExtraTargets: g.ixAttrs(), ExtraValues: g.ixVals, IllTyped: illTyped}
	u := c.Update(rt, cfg)
	op := model.Op{Kind: "Update", Table: g.s.Table, Key: key, Update: model.RenderUpdate(u), Names: c.Names, Values: c.Values}
	if rapid.IntRange(0, 5).Draw(rt, "withReturnValues") == 3 {
		// an explicit ReturnValues parameter: the effect on the table is the same
		op.ReturnValues = rapid.SampledFrom([]string{"NONE", "ALL_OLD", "UPDATED_OLD", "ALL_NEW", "UPDATED_NEW"}).Draw(rt, "returnValues")
	}
	return op
}

func emptyToNil(m map[string]string) map[string]string {
	if len(m) == 0 {
		return nil
	}
	return m
}

// pruneUnused drops placeholders that no expression of the request uses
// (generators may allocate aliases for operands they end up not using).
func pruneUnused(names map[string]string, values map[string]model.AV, exprs ...string) (map[string]string, map[string]model.AV) {
	used := tokensOf(exprs...)
	for k := range names {
		if !used[k] {
			delete(names, k)
		}
	}
	for k := range values {
		if !used[k] {
			delete(values, k)
		}
	}
	return names, values
}

func normOp(op model.Op) model.Op {
	op.Names, op.Values = pruneUnused(op.Names, op.Values, op.Cond, op.Update, op.KeyCond, op.Filter, op.Projection)
	if len(op.Names) == 0 {
		op.Names = nil
	}
	if len(op.Values) == 0 {
		op.Values = nil
	}
	return op
}

// lateIndexOp draws an UpdateTable request that adds a global index to the
// populated table: on index attributes of the existing schema or on the plain
// attributes "a" / "b" (declared S), which stored items may lack, hold with the
// declared type or hold with another one. ok is false when the drawn variant
// cannot be sent (the AddIndex helper supplies no throughput).
func (g *tgen) lateIndexOp(rt *rapid.T, db *model.DB, n int) (model.Op, bool) {
	t := db.Tables[g.s.Table]
	ix := model.IndexSchema{Name: fmt.Sprintf("late%d", n), Global: true}
	if g.redeclare && len(t.Schema.Indexes) > 0 && rapid.IntRange(0, 3).Draw(rt, "redeclare") == 0 {
		// a second index on the key attribute of an existing one, declared with
		// another type (DynamoDB rejects the request)
		old := rapid.SampledFrom(t.Schema.Indexes).Draw(rt, "redeclaredIndex")
		a := old.Hash
		if old.Range != "" && rapid.Bool().Draw(rt, "redeclareRange") {
			a = old.Range
		}
		ty := "N"
		if t.Schema.Attrs[a] == "N" {
			ty = "S"
		}
		ix.Hash = a
		return model.Op{Kind: "AddIndex", Table: g.s.Table, IndexSchema: &ix, IndexAttrs: map[string]string{a: ty}}, true
	}
	cands := []string{"g1", "g2", "r1", "r2", "sk", "a", "b"}
	ix.Hash = rapid.SampledFrom(cands).Draw(rt, "lateHash")
	if rapid.Bool().Draw(rt, "lateHasRange") {
		ix.Range = rapid.SampledFrom(cands).Filter(func(a string) bool { return a != ix.Hash }).Draw(rt, "lateRange")
	}
	attrs := map[string]string{}
	helper := rapid.IntRange(0, 3).Draw(rt, "viaHelper") == 0
	for _, a := range []string{ix.Hash, ix.Range} {
		if a == "" {
			continue
		}
		if ty, ok := t.Schema.Attrs[a]; ok {
			attrs[a] = ty
			if ty != "S" {
				helper = false
			}
		} else {
			attrs[a] = "S"
		}
	}
	if helper {
		ix.ViaHelper, ix.NoThroughput = true, true
		if t.Schema.Billing != "PAY_PER_REQUEST" {
			return model.Op{}, false
		}
	}
	return model.Op{Kind: "AddIndex", Table: g.s.Table, IndexSchema: &ix, IndexAttrs: attrs}, true
}

// adoptLateIndex makes the generator use the index added by op (if the model
// accepted it): values for its key attributes and the new schema.
func (g *tgen) adoptLateIndex(rt *rapid.T, db *model.DB, op model.Op) {
	t := db.Tables[g.s.Table]
	if t == nil || t.Schema.FindIndex(op.IndexSchema.Name) == nil {
		return
	}
	for _, a := range []string{op.IndexSchema.Hash, op.IndexSchema.Range} {
		if a == "" || a == g.s.Hash || a == g.s.Range {
			continue
		}
		if _, ok := g.ixVals[a]; !ok {
			for i := 0; i < 2; i++ {
				g.ixVals[a] = append(g.ixVals[a], drawKeyValue(rt, op.IndexAttrs[a], g.o, "lateIxVal"))
			}
		}
	}
	g.s = t.Schema
}

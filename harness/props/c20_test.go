package props

import (
	"encoding/json"
	"fmt"
	"sort"
	"strings"
	"testing"

	"pgregory.net/rapid"

	v1client "github.com/truora/minidyn/aws-v1/client"
	v2client "github.com/truora/minidyn/aws-v2/client"
	"github.com/truora/minidyn/interpreter"
	mtypes "github.com/truora/minidyn/types"

	"verifharness/drv"
	"verifharness/model"
	"verifharness/stats"
)

type c20Reg struct {
	ID      int    `json:"id"`
	Table   string `json:"table"`
	Kind    string `json:"kind"` // key | filter | conditional | update
	Text    string `json:"text"`
	Verdict bool   `json:"verdict"`
}

type c20Case struct {
	Regs                 []c20Reg     `json:"regs"`
	NativeOn             bool         `json:"nativeOn"`
	ActivateBeforeCreate bool         `json:"activateBeforeCreate"`
	ViaSetInterpreter    bool         `json:"viaSetInterpreter"`
	SetBeforeCreate      bool         `json:"setBeforeCreate"`
	RegisterLate         bool         `json:"registerLate"` // registrations added after the tables exist
	Items                []model.Item `json:"items"`
	Req                  model.Op     `json:"req"`
	// Pre: with RegisterLate, a request executed before the registrations are
	// made (dispatch must not depend on what the table evaluated earlier)
	Pre *model.Op `json:"pre,omitempty"`
	// ReRegister: the request is executed once, then every registration is made
	// again with the opposite verdict and a new callback; the latest wins
	ReRegister bool `json:"reRegister,omitempty"`
	// Poison: the registered updaters produce an item the table must refuse (index key of
	// the wrong type): the call fails and nothing changes
	Poison bool `json:"poison,omitempty"`
}

var c20Texts = map[string][]string{
	"key":         {"pk = :h", ":h = pk", " pk = :h ", "pk =  :h", "pk = :h AND sk > :s", "sk > :s AND pk = :h"},
	"filter":      {"a = :v", "A = :v", ":v = a", "v = :a", "a  = :v", " a = :v", "a = :v AND b = :w", "b = :w AND a = :v", "a <> :v", "attribute_exists(a)", "attribute_exists(A)", "à = :v", "Å = :v"},
	"conditional": {"a = :v", "A = :v", ":v = a", "v = :a", "a  = :v", " a = :v", "a = :v AND b = :w", "b = :w AND a = :v", "attribute_exists(a)", "attribute_not_exists(pk)", "attribute_not_exists(PK)", "à = :v", "Å = :v"},
	"update":      {"SET a = :v", "SET A = :v", "SET  a = :v", " SET a = :v ", "SET a = :v, b = :w", "SET a = :w, b = :v", "SET b = :w, a = :v", "REMOVE a", "REMOVE A", "ADD n :one"},
}

var c20AllValues = map[string]model.AV{":h": model.Str("p1"), ":s": model.Str("a"), ":v": model.Str("x"), ":w": model.Str("y"), ":a": model.Str("x"), ":one": model.Num("1")}

func collapseWS(s string) string { return strings.Join(strings.Fields(s), " ") }

func c20ValuesFor(texts ...string) map[string]model.AV {
	out := map[string]model.AV{}
	for _, t := range texts {
		for _, tok := range model.TokenTexts(t) {
			if v, ok := c20AllValues[tok]; ok {
				out[tok] = v
			}
		}
	}
	if len(out) == 0 {
		return nil
	}
	return out
}

type c20Log struct {
	fired  []int
	poison bool // updaters also give the index key attribute g a number: the update must be refused
}

func (l *c20Log) matcher(id int, verdict bool) interpreter.MatcherFunc {
	return func(item map[string]*mtypes.Item, attrs map[string]*mtypes.Item) bool {
		l.fired = append(l.fired, id)
		return verdict
	}
}

func (l *c20Log) updater(id int) interpreter.UpdaterFunc {
	return func(item map[string]*mtypes.Item, attrs map[string]*mtypes.Item) {
		l.fired = append(l.fired, id)
		s := fmt.Sprintf("updater-%d", id)
		item["marker"] = &mtypes.Item{S: &s}
		yes := true
		item["nul"] = &mtypes.Item{NULL: &yes} // a NULL-typed value is a value
		delete(item, "a")                      // the Go form of a REMOVE clause
		if l.poison {
			seven := "7"
			item["g"] = &mtypes.Item{N: &seven}
		}
	}
}

func (l *c20Log) set() []int {
	m := map[int]bool{}
	for _, id := range l.fired {
		m[id] = true
	}
	out := []int{}
	for id := range m {
		out = append(out, id)
	}
	sort.Ints(out)
	return out
}

func register(n *interpreter.Native, regs []c20Reg, l *c20Log) {
	for _, r := range regs {
		switch r.Kind {
		case "update":
			n.AddUpdater(r.Table, r.Text, l.updater(r.ID))
		case "key":
			n.AddMatcher(r.Table, interpreter.ExpressionTypeKey, r.Text, l.matcher(r.ID, r.Verdict))
		case "filter":
			n.AddMatcher(r.Table, interpreter.ExpressionTypeFilter, r.Text, l.matcher(r.ID, r.Verdict))
		default:
			n.AddMatcher(r.Table, interpreter.ExpressionTypeConditional, r.Text, l.matcher(r.ID, r.Verdict))
		}
	}
}

// lookupReg: the registration that must fire for (table, kind, text), and
// whether the case is only "close" (equal after collapsing inner whitespace).
func lookupReg(regs []c20Reg, table, kind, text string) (reg *c20Reg, close bool) {
	// "up to surrounding and repeated whitespace": texts that are equal after
	// collapsing whitespace are one registration slot; the latest one wins
	for i := len(regs) - 1; i >= 0; i-- {
		r := &regs[i]
		if r.Table == table && r.Kind == kind && collapseWS(r.Text) == collapseWS(text) {
			return r, false
		}
	}
	return nil, false
}

func c20Schema(name string) *model.Schema {
	return &model.Schema{Table: name, Hash: "pk", Range: "sk", Attrs: map[string]string{"pk": "S", "sk": "S", "g": "S"}, Billing: "PAY_PER_REQUEST",
		Indexes: []model.IndexSchema{{Name: "gidx", Hash: "g", Global: true, NoThroughput: true}}}
}

type c20Info struct {
	weak      bool
	anagram   bool
	otherSlot bool
}

func runC20(c c20Case, info *c20Info) (fl *failure) {
	defer func() {
		if r := recover(); r != nil {
			fl = newFail("runtime panic", "C20 %v", r)
		}
	}()
	for _, which := range []string{"v1", "v2"} {
		l := &c20Log{poison: c.Poison}
		var d drv.Real
		var native *interpreter.Native
		var setInterp func(*interpreter.Native)
		var activate func()
		if which == "v1" {
			cl := v1client.NewClient()
			d = &drv.V1{C: cl}
			native = cl.GetNativeInterpreter()
			setInterp = func(n *interpreter.Native) { cl.SetInterpreter(n) }
			activate = cl.ActivateNativeInterpreter
		} else {
			cl := v2client.NewClient()
			d = &drv.V2{C: cl}
			native = cl.GetNativeInterpreter()
			setInterp = func(n *interpreter.Native) { cl.SetInterpreter(n) }
			activate = cl.ActivateNativeInterpreter
		}
		if c.ViaSetInterpreter {
			native = interpreter.NewNativeInterpreter()
		}
		if !c.RegisterLate {
			register(native, c.Regs, l)
		}
		if c.ViaSetInterpreter && c.SetBeforeCreate {
			setInterp(native)
		}
		if c.NativeOn && c.ActivateBeforeCreate {
			activate()
		}
		for _, tn := range []string{"tblA", "tblB"} {
			if r := d.Apply(model.Op{Kind: "CreateTable", Schema: c20Schema(tn)}); r.Err != "" {
				return newFail("harness: table creation failed", "%s", r.ErrText)
			}
			for _, it := range c.Items {
				if r := d.Apply(model.Op{Kind: "Put", Table: tn, Item: it}); r.Err != "" {
					return newFail("harness: setup put failed", "%s", r.ErrText)
				}
			}
		}
		if c.ViaSetInterpreter && !c.SetBeforeCreate {
			setInterp(native)
		}
		if c.NativeOn && !c.ActivateBeforeCreate {
			activate()
		}
		if c.RegisterLate {
			if c.Pre != nil {
				if r := d.Apply(*c.Pre); r.Err == model.ErrRuntimePanic {
					return newFail("runtime panic", "%s %s: %s", which, c.Pre.Kind, r.ErrText)
				}
				// restore the items the earlier request may have changed
				for _, tn := range []string{"tblA", "tblB"} {
					d.Apply(model.Op{Kind: "ClearTable", Table: tn})
					for _, it := range c.Items {
						d.Apply(model.Op{Kind: "Put", Table: tn, Item: it})
					}
				}
			}
			register(native, c.Regs, l)
		}
		regsInForce := c.Regs
		if c.ReRegister {
			if r := d.Apply(c.Req); r.Err == model.ErrRuntimePanic {
				return newFail("runtime panic", "%s %s: %s", which, c.Req.Kind, r.ErrText)
			}
			for _, tn := range []string{"tblA", "tblB"} {
				d.Apply(model.Op{Kind: "ClearTable", Table: tn})
				for _, it := range c.Items {
					d.Apply(model.Op{Kind: "Put", Table: tn, Item: it})
				}
			}
			regsInForce = nil
			for _, r := range c.Regs {
				r.ID, r.Verdict = r.ID+100, !r.Verdict
				regsInForce = append(regsInForce, r)
			}
			register(native, regsInForce, l)
		}
		l.fired = nil
		before := d.Snapshot()
		got := d.Apply(c.Req)
		if got.Err == model.ErrRuntimePanic {
			return newFail("runtime panic", "%s %s: %s", which, c.Req.Kind, got.ErrText)
		}
		// ---- oracle
		op := c.Req
		var regs []c20Reg
		if c.NativeOn {
			regs = regsInForce
		}
		find := func(kind, text string) *c20Reg {
			if text == "" {
				return nil
			}
			r, close := lookupReg(regs, op.Table, kind, text)
			if r == nil && close {
				info.weak = true
			}
			// classification for the evidence
			for _, x := range c.Regs {
				if x.Kind == kind && x.Table == op.Table && collapseWS(x.Text) != collapseWS(text) && sortedChars(x.Text) == sortedChars(text) {
					info.anagram = true
				}
				if collapseWS(x.Text) == collapseWS(text) && (x.Kind != kind || x.Table != op.Table) {
					info.otherSlot = true
				}
			}
			return r
		}
		kReg, fReg, cReg, uReg := find("key", op.KeyCond), find("filter", op.Filter), find("conditional", op.Cond), find("update", op.Update)
		if info.weak {
			continue
		}
		eval := func(text string, reg *c20Reg, it model.Item) (bool, bool) { // value, error
			if reg != nil {
				return reg.Verdict, false
			}
			e, perr := model.ParseCondition(text)
			if perr != nil {
				return false, true
			}
			o := model.EvalCond(e, model.Env{Item: it, Names: op.Names, Values: op.Values})
			if !o.Single() || o == model.OE {
				return false, true
			}
			return o == model.OT, false
		}
		expectFired := map[int]bool{}
		mark := func(r *c20Reg) {
			if r != nil {
				expectFired[r.ID] = true
			}
		}
		var items []model.Item
		for _, it := range c.Items {
			items = append(items, it)
		}
		var target model.Item
		key := op.Key
		if op.Kind == "Put" {
			key = model.Item{"pk": op.Item["pk"], "sk": op.Item["sk"]}
		}
		for _, it := range items {
			if key != nil && model.Equal(it["pk"], key["pk"]) && model.Equal(it["sk"], key["sk"]) {
				target = it
			}
		}
		fail := func(class, format string, a ...interface{}) *failure {
			return newFail(class, which+" "+op.Kind+": "+format, a...)
		}
		switch op.Kind {
		case "Scan", "Query":
			var want []model.Item
			for _, it := range items {
				ok := true
				if op.Kind == "Query" {
					v, e := eval(op.KeyCond, kReg, it)
					if e {
						info.weak = true
						break
					}
					mark(kReg)
					ok = v
				}
				if ok && op.Filter != "" {
					v, e := eval(op.Filter, fReg, it)
					if e {
						info.weak = true
						break
					}
					mark(fReg)
					ok = v
				}
				if ok {
					want = append(want, it)
				}
			}
			if info.weak {
				continue
			}
			if got.Err != "" {
				return fail("native dispatch: request failed", "%s %s", got.Err, got.ErrText)
			}
			if !model.MultisetEqual(want, got.Items) {
				return fail("native dispatch: wrong verdict used", "want %v got %v", model.CanonItems(want), model.CanonItems(got.Items))
			}
		case "Put", "Delete", "Update":
			condOK := true
			if op.Cond != "" {
				v, e := eval(op.Cond, cReg, orEmpty(target))
				if e {
					info.weak = true
					continue
				}
				mark(cReg)
				condOK = v
			}
			if !condOK {
				if got.Err != model.ErrCondFailed {
					return fail("native dispatch: wrong verdict used", "condition verdict false but the call returned %q %s", got.Err, got.ErrText)
				}
				if d.Snapshot() != before {
					return fail("refused write changed state", "")
				}
				break
			}
			if op.Kind == "Update" {
				switch {
				case uReg != nil && c.Poison:
					mark(uReg)
					if got.Err == "" {
						return fail("native update that yields a wrongly typed index key was accepted", "item after the update: %s", model.CanonItem(got.Item))
					}
					if d.Snapshot() != before {
						return fail("refused write changed state", "native update refused with %s %s", got.Err, got.ErrText)
					}
				case uReg != nil:
					mark(uReg)
					if got.Err != "" {
						return fail("native dispatch: registered updater not used", "%s %s", got.Err, got.ErrText)
					}
					if m, ok := got.Item["marker"]; !ok || m.S != fmt.Sprintf("updater-%d", uReg.ID) {
						return fail("native dispatch: wrong updater used", "marker %v, want updater-%d", got.Item["marker"], uReg.ID)
					}
					if _, ok := got.Item["a"]; ok {
						return fail("native dispatch: the updater's mutation is not the outcome", "the updater deleted attribute a, the item after the update still holds it: %s", model.CanonItem(got.Item))
					}
					if g := d.Apply(model.Op{Kind: "Get", Table: op.Table, Key: op.Key}); g.Err == "" {
						if _, ok := g.Item["a"]; ok || g.Item["marker"].S != fmt.Sprintf("updater-%d", uReg.ID) {
							return fail("native dispatch: the updater's mutation is not the outcome", "stored item after the update: %s", model.CanonItem(g.Item))
						}
						// ... and nothing but it: every other attribute, of whatever type, is as it was
						exp := model.CloneItem(orEmpty(target))
						for k, v := range op.Key {
							exp[k] = v
						}
						delete(exp, "a")
						exp["marker"], exp["nul"] = model.Str(fmt.Sprintf("updater-%d", uReg.ID)), model.Null()
						if !model.ItemEqual(exp, g.Item) {
							return fail("native dispatch: the updater's mutation is not the outcome", "stored item after the update: %s, expected %s", model.CanonItem(g.Item), model.CanonItem(exp))
						}
					}
				case c.NativeOn:
					if got.Err != model.ErrUnsupported && got.Err != model.ErrUnsupPanic {
						return fail("update without a registered updater did not fail as unsupported", "got %q %s", got.Err, got.ErrText)
					}
					if d.Snapshot() != before {
						return fail("unsupported update changed state", "")
					}
				default:
					if got.Err != "" {
						return fail("native dispatch: fallback update failed", "%s %s", got.Err, got.ErrText)
					}
					if _, ok := got.Item["marker"]; ok {
						return fail("native dispatch: updater used although the native interpreter is off", "")
					}
				}
			} else if got.Err != "" {
				return fail("native dispatch: wrong verdict used", "condition verdict true but the call returned %q %s", got.Err, got.ErrText)
			}
		}
		// exactly the expected callbacks fired
		var exp []int
		for id := range expectFired {
			exp = append(exp, id)
		}
		sort.Ints(exp)
		if fmt.Sprint(exp) != fmt.Sprint(l.set()) {
			return fail("native dispatch: wrong callbacks fired", "expected %v fired %v", exp, l.set())
		}
	}
	return nil
}

func sortedChars(s string) string {
	r := strings.Split(strings.TrimSpace(s), "")
	sort.Strings(r)
	return strings.Join(r, "")
}

func init() {
	replayers["c20"] = func(raw json.RawMessage) *failure {
		var c c20Case
		if err := json.Unmarshal(raw, &c); err != nil {
			return newFail("bad replay file", "%v", err)
		}
		return runC20(c, &c20Info{})
	}
}

const ruleC20 = "rapid: a set of registrations - subset of {tblA, tblB} x {key, filter, conditional, update} x texts from pools built to collide under character sorting (anagram pairs such as 'a = :v' / ':v = a' / 'v = :a', 'SET a = :v, b = :w' / 'SET a = :w, b = :v', whitespace variants, letter-case variants 'a' / 'A', non-ASCII names whose UTF-8 bytes look like white space to byte-wise code, prefixes), each with an instrumented callback that records its id and returns a generated verdict (matchers) or writes a marker attribute and a NULL-typed one and deletes another (updaters; the stored items also hold NULL, BOOL, empty-string, binary-set and number-set values, at top level and nested, and the stored item after the update must equal the item before it with exactly that mutation; in a sixth of the cases the updaters also give the key attribute of the tables' global index a number, and the update must be refused without a trace); the native interpreter on or off, activated before or after table creation, registrations made on the client's own interpreter or installed with SetInterpreter before or after table creation, before or after the tables exist, optionally after the same request has already been executed once unregistered, or executed once and every registration then made again with the opposite verdict and a new callback; then one request (Scan with filter, Query with key condition and optional filter, Put / Delete / Update with condition, Update with update text) on either table, on both SDK clients. Oracle: for each expression the request evaluates, a registration for exactly (table, kind, trimmed text) -> that callback and only it fires and its verdict / mutation decides the outcome (texts equal after collapsing surrounding and repeated whitespace are one registration, the latest wins); no such registration -> no callback fires, matches fall back to the built-in interpreter (reference model), updates fail as unsupported and change nothing. Non-trivial = request whose text is an anagram (not whitespace-equal) of a registered text of the same slot, or equal to a text registered for another table or kind; distinct = hash of the case."

// TestC20 decides property C20.
func TestC20(t *testing.T) {
	st := stats.For("C20")
	st.SetRule(ruleC20)
	rapid.Check(t, func(rt *rapid.T) {
		c := c20Case{
			NativeOn:             rapid.IntRange(0, 4).Draw(rt, "nativeOn") > 0,
			ActivateBeforeCreate: rapid.Bool().Draw(rt, "activateBeforeCreate"),
			ViaSetInterpreter:    rapid.Bool().Draw(rt, "viaSetInterpreter"),
			SetBeforeCreate:      rapid.Bool().Draw(rt, "setBeforeCreate"),
			RegisterLate:         rapid.Bool().Draw(rt, "registerLate"),
			ReRegister:           rapid.IntRange(0, 3).Draw(rt, "reRegister") == 2,
			Poison:               rapid.IntRange(0, 5).Draw(rt, "poison") == 3,
		}
		c.Items = []model.Item{
			{"pk": model.Str("p1"), "sk": model.Str("a"), "a": model.Str("x"), "b": model.Str("y"), "n": model.Num("1"), "g": model.Str("g1"),
				// values of the rarer types: an update must hand them through untouched
				"z": model.Null(), "t": model.Bool(false), "e": model.Str(""), "bs": model.BinSet([]byte{1}, []byte{2, 3}), "ns": model.NumSet("1", "2.50"),
				"l": model.List(model.Null(), model.Map(map[string]model.AV{"k": model.BinSet([]byte{9}), "z": model.Null()}), model.NumSet("7"), model.Bin([]byte{0}))},
			{"pk": model.Str("p1"), "sk": model.Str("b"), "a": model.Str("z"), "v": model.Str("x"), "z": model.Null(), "bs": model.BinSet([]byte{4}, []byte{5})},
			{"pk": model.Str("p2"), "sk": model.Str("c"), "b": model.Str("y")},
		}
		n := rapid.IntRange(0, 5).Draw(rt, "nRegs")
		for i := 0; i < n; i++ {
			kind := rapid.SampledFrom([]string{"key", "filter", "conditional", "update"}).Draw(rt, "regKind")
			pool := c20Texts[kind]
			if kind != "update" && rapid.IntRange(0, 2).Draw(rt, "crossPool") == 0 {
				// the same text registered under another matcher kind must not be used
				pool = c20Texts[rapid.SampledFrom([]string{"key", "filter", "conditional"}).Draw(rt, "poolKind")]
			}
			c.Regs = append(c.Regs, c20Reg{ID: i + 1, Table: rapid.SampledFrom([]string{"tblA", "tblB"}).Draw(rt, "regTable"), Kind: kind,
				Text: rapid.SampledFrom(pool).Draw(rt, "regText"), Verdict: rapid.Bool().Draw(rt, "verdict")})
		}
		table := rapid.SampledFrom([]string{"tblA", "tblB"}).Draw(rt, "reqTable")
		key := model.Item{"pk": model.Str("p1"), "sk": model.Str(rapid.SampledFrom([]string{"a", "b", "zz"}).Draw(rt, "reqSk"))}
		pickText := func(kind, label string) string {
			// prefer texts related to the registrations
			if len(c.Regs) > 0 && rapid.IntRange(0, 9).Draw(rt, label+"Related") < 6 {
				r := rapid.SampledFrom(c.Regs).Draw(rt, label+"Reg")
				if r.Kind == kind || (kind != "update" && r.Kind != "update" && kind != "key" && r.Kind != "key") {
					return r.Text
				}
				// a key-shaped text registered under another matcher kind
				if kind == "key" && r.Kind != "update" && strings.Contains(r.Text, "pk") {
					return r.Text
				}
			}
			return rapid.SampledFrom(c20Texts[kind]).Draw(rt, label)
		}
		switch rapid.IntRange(0, 5).Draw(rt, "reqKind") {
		case 0:
			c.Req = model.Op{Kind: "Scan", Table: table, Filter: pickText("filter", "filter")}
		case 1:
			c.Req = model.Op{Kind: "Query", Table: table, KeyCond: pickText("key", "keyCond")}
			if rapid.Bool().Draw(rt, "queryFilter") {
				c.Req.Filter = pickText("filter", "filter")
			}
		case 2:
			c.Req = model.Op{Kind: "Put", Table: table, Item: model.Item{"pk": key["pk"], "sk": key["sk"], "a": model.Str("new")}, Cond: pickText("conditional", "cond")}
		case 3:
			c.Req = model.Op{Kind: "Delete", Table: table, Key: key, Cond: pickText("conditional", "cond")}
		case 4:
			c.Req = model.Op{Kind: "Update", Table: table, Key: key, Update: pickText("update", "update")}
		default:
			c.Req = model.Op{Kind: "Update", Table: table, Key: key, Update: pickText("update", "update"), Cond: pickText("conditional", "cond")}
		}
		c.Req.Values = c20ValuesFor(c.Req.KeyCond, c.Req.Filter, c.Req.Cond, c.Req.Update)
		if c.RegisterLate && rapid.Bool().Draw(rt, "requestBeforeRegistration") {
			pre := c.Req
			c.Pre = &pre
		}
		pending("C20", "c20", c)
		info := &c20Info{}
		f := runC20(c, info)
		if info.weak {
			st.WeakCase()
		}
		st.Case(info.anagram || info.otherSlot, c)
		if info.anagram {
			st.Class("request-is-anagram-of-a-registered-text")
		}
		if info.otherSlot {
			st.Class("text-registered-for-another-table-or-kind")
		}
		st.Class("request-" + c.Req.Kind)
		if c.NativeOn {
			st.Class("native-on")
		} else {
			st.Class("native-off")
		}
		if f != nil {
			failCase(rt, "C20", "c20", f, c)
		}
	})
}

package props

import (
	"os"
	"path/filepath"
	"testing"

	"verifharness/model"
)

// Hand-written minimal reproductions of the open known findings. They are
// written to /verif/known/<id>.json by TestGenKnown (VERIF_GEN_KNOWN=1) and
// committed; every check run replays the committed files.

type knownRepro struct {
	Kind string
	Case interface{}
}

func sTable(name string, rng bool) *model.Schema {
	s := &model.Schema{Table: name, Hash: "pk", Attrs: map[string]string{"pk": "S"}, Billing: "PAY_PER_REQUEST"}
	if rng {
		s.Range = "sk"
		s.Attrs["sk"] = "S"
	}
	return s
}

func hist(cfg worldCfg, ops ...model.Op) historyCase { return historyCase{Cfg: cfg, Ops: ops} }

var bothClients = worldCfg{V1: true, V2: true, WhiteBox: true, IndexReads: true}

func pkItem(pk string, extra model.Item) model.Item {
	it := model.Item{"pk": model.Str(pk)}
	for k, v := range extra {
		it[k] = v
	}
	return it
}

var knownRepros = map[string]knownRepro{
	"F-FLOAT": {"history:C01", hist(bothClients,
		model.Op{Kind: "CreateTable", Schema: sTable("tbl", false)},
		model.Op{Kind: "Put", Table: "tbl", Item: pkItem("a", model.Item{"n": model.Num("9007199254740993")})},
		model.Op{Kind: "Update", Table: "tbl", Key: pkItem("a", nil), Update: "SET b = :v", Values: map[string]model.AV{":v": model.Str("x")}},
	)},
	"F-V2EMPTY": {"history:C01", hist(worldCfg{V2: true},
		model.Op{Kind: "CreateTable", Schema: sTable("tbl", false)},
		model.Op{Kind: "Put", Table: "tbl", Item: pkItem("a", model.Item{"l": model.List(), "m": model.Map(nil)})},
		model.Op{Kind: "Get", Table: "tbl", Key: pkItem("a", nil)},
	)},
}

func init() {
	knownRepros["F-SETORDER"] = knownRepro{"history:C01", hist(bothClients,
		model.Op{Kind: "CreateTable", Schema: sTable("tbl", false)},
		model.Op{Kind: "Put", Table: "tbl", Item: pkItem("a", model.Item{"a": model.Num("1")})},
		model.Op{Kind: "Update", Table: "tbl", Key: pkItem("a", nil), Update: "SET a = :v, b = a", Values: map[string]model.AV{":v": model.Num("5")}},
	)}
}

func init() {
	knownRepros["F-PATHTYPE"] = knownRepro{"history:C01", hist(bothClients,
		model.Op{Kind: "CreateTable", Schema: sTable("tbl", false)},
		model.Op{Kind: "Put", Table: "tbl", Item: pkItem("a", model.Item{"a": model.Str("x")})},
		model.Op{Kind: "Scan", Table: "tbl", Filter: "attribute_not_exists(a.b)"},
	)}
}

func nTable(name string) *model.Schema {
	return &model.Schema{Table: name, Hash: "pk", Range: "sk", Attrs: map[string]string{"pk": "S", "sk": "N"}, Billing: "PAY_PER_REQUEST"}
}

func init() {
	knownRepros["F-NUMKEYTEXT"] = knownRepro{"history:C01", hist(bothClients,
		model.Op{Kind: "CreateTable", Schema: nTable("tbl")},
		model.Op{Kind: "Put", Table: "tbl", Item: model.Item{"pk": model.Str("a"), "sk": model.Num("1"), "v": model.Str("x")}},
		model.Op{Kind: "Get", Table: "tbl", Key: model.Item{"pk": model.Str("a"), "sk": model.Num("1.0")}},
	)}
	knownRepros["F-NUMSORT"] = knownRepro{"history:C02", hist(worldCfg{V1: true, V2: true},
		model.Op{Kind: "CreateTable", Schema: nTable("tbl")},
		model.Op{Kind: "Put", Table: "tbl", Item: model.Item{"pk": model.Str("a"), "sk": model.Num("9")}},
		model.Op{Kind: "Put", Table: "tbl", Item: model.Item{"pk": model.Str("a"), "sk": model.Num("10")}},
		model.Op{Kind: "Query", Table: "tbl", KeyCond: "pk = :h", Values: map[string]model.AV{":h": model.Str("a")}},
	)}
}

func init() {
	knownRepros["F-LOOSETOKENS"] = knownRepro{"c09", c09Case{Kind: "cond", Expr: "a = 5", Items: c09Items, Names: c09Names, Values: c09Values}}
}

func init() {
	knownRepros["F-KEYMUT"] = knownRepro{"history:C13", hist(bothClients,
		model.Op{Kind: "CreateTable", Schema: sTable("tbl", false)},
		model.Op{Kind: "Put", Table: "tbl", Item: pkItem("a", model.Item{"v": model.Str("x")})},
		model.Op{Kind: "Update", Table: "tbl", Key: pkItem("a", nil), Update: "SET pk = :k", Values: map[string]model.AV{":k": model.Str("b")}},
	)}
	knownRepros["F-BGUNPROC"] = knownRepro{"history:C19", hist(worldCfg{V2: true},
		model.Op{Kind: "CreateTable", Schema: sTable("tbl", false)},
		model.Op{Kind: "Put", Table: "tbl", Item: pkItem("a", nil)},
		model.Op{Kind: "BatchGet", Batch: []model.TableBatch{{Table: "tbl", Keys: []model.Item{pkItem("a", nil), pkItem("absent", nil)}}}},
	)}
}

func init() {
	knownRepros["F-KEYCOLLIDE"] = knownRepro{"history:C13", hist(worldCfg{V1: true, V2: true, WhiteBox: true},
		model.Op{Kind: "CreateTable", Schema: sTable("tbl", true)},
		model.Op{Kind: "Put", Table: "tbl", Item: model.Item{"pk": model.Str("a.b"), "sk": model.Str("c"), "v": model.Str("first")}},
		model.Op{Kind: "Put", Table: "tbl", Item: model.Item{"pk": model.Str("a"), "sk": model.Str("b.c"), "v": model.Str("second")}},
		model.Op{Kind: "Get", Table: "tbl", Key: model.Item{"pk": model.Str("a.b"), "sk": model.Str("c")}},
	)}
}

func init() {
	knownRepros["F-RESNESTED"] = knownRepro{"c16word", c16Word{Kind: "cond", Expr: "m.ABORT = :v", Word: "ABORT", Expect: "reject"}}
	knownRepros["F-KEYCONDSHAPE"] = knownRepro{"history:C16", hist(bothClients,
		model.Op{Kind: "CreateTable", Schema: sTable("tbl", true)},
		model.Op{Kind: "Put", Table: "tbl", Item: model.Item{"pk": model.Str("a"), "sk": model.Str("b")}},
		model.Op{Kind: "Query", Table: "tbl", KeyCond: "sk = :a", Values: map[string]model.AV{":a": model.Str("b")}},
	)}
	knownRepros["F-SUBSTR"] = knownRepro{"history:C16", hist(bothClients,
		model.Op{Kind: "CreateTable", Schema: sTable("tbl", false)},
		model.Op{Kind: "Scan", Table: "tbl", Filter: "a = :pp", Values: map[string]model.AV{":pp": model.Str("x"), ":p": model.Str("y")}},
	)}
	knownRepros["F-UNDEFPH"] = knownRepro{"history:C16", hist(bothClients,
		model.Op{Kind: "CreateTable", Schema: sTable("tbl", false)},
		model.Op{Kind: "Put", Table: "tbl", Item: pkItem("a", nil)},
		model.Op{Kind: "Scan", Table: "tbl", Filter: "a = :v"},
	)}
}

func init() {
	knownRepros["F-PHCOLLIDE"] = knownRepro{"c07", exprCase{Expr: "SET #x = :v", Item: model.Item{"#x": model.Str("keep"), "a": model.Str("1")},
		Names: map[string]string{"#x": "a"}, Values: map[string]model.AV{":v": model.Str("2")}}}
}

// TestGenKnown writes the repro files.
func TestGenKnown(t *testing.T) {
	if os.Getenv("VERIF_GEN_KNOWN") == "" {
		t.Skip("set VERIF_GEN_KNOWN=1 to regenerate /verif/known")
	}
	for id, r := range knownRepros {
		old := os.Getenv("VERIF_REPLAY_OUT")
		os.Setenv("VERIF_REPLAY_OUT", filepath.Join(verifRoot(), "known", id+".json"))
		writeReplay("known:"+id, r.Kind, "known finding", id, r.Case)
		os.Setenv("VERIF_REPLAY_OUT", old)
	}
}

package props

import (
	"encoding/json"
	"fmt"
	"github.com/truora/minidyn/interpreter"
	"strings"
	"testing"
	"time"

	"pgregory.net/rapid"

	"verifharness/gen"
	"verifharness/model"
	"verifharness/stats"
)

// c09Case is one (possibly malformed) expression string evaluated against a
// few items.
type c09Case struct {
	Kind   string              `json:"kind"` // cond | update
	Expr   string              `json:"expr"`
	Items  []model.Item        `json:"items"`
	Names  map[string]string   `json:"names,omitempty"`
	Values map[string]model.AV `json:"values,omitempty"`
	API    bool                `json:"api,omitempty"`
	// Warm: an expression evaluated first in the same process (whatever state
	// the implementation keeps between evaluations must not change the verdict)
	Warm string `json:"warm,omitempty"`
}

// fixed bindings and items for raw / fuzzed strings
var (
	c09Names  = map[string]string{"#n0": "s", "#n1": "n", "#n2": "m", "#n3": "l", "#a": "a", "#cyc": "#cyc", "#ch1": "#ch2", "#ch2": "#ch1"}
	c09Values = map[string]model.AV{":v0": model.Str("a"), ":v1": model.Num("1"), ":v2": model.Str("ab"), ":v3": model.Num("2"),
		":v4": model.StrSet("x", "y"), ":v5": model.List(model.Num("1")), ":x": model.Str("a"), ":y": model.Str("b"), ":s": model.Str("S"),
		":big": model.Num("9223372036854775807"), ":neg1": model.Num("-1"), ":frac": model.Num("1.5"), ":huge": model.Num("1e30")}
	c09Items = []model.Item{
		{},
		{"a": model.Str("a"), "b": model.Str("b"), "s": model.Str("ab"), "n": model.Num("1"), "flag": model.Bool(true)},
		{"a": model.Str("b"), "s": model.Str("a"), "n": model.Num("2"), "m": model.Map(map[string]model.AV{"k": model.Num("1")}), "l": model.List(model.Num("1"), model.Str("a"))},
		{"a": model.Num("1"), "b": model.Null(), "ss": model.StrSet("x"), "l": model.List(), "and": model.Str("a"), "x": model.Str("a")},
	}
)

// withWatchdog runs f and reports whether it returned within the deadline.
func withWatchdog(f func()) bool {
	done := make(chan struct{})
	go func() {
		defer close(done)
		f()
	}()
	select {
	case <-done:
		return true
	case <-time.After(20 * time.Second):
		return false
	}
}

// looseReason reports whether a reference-parser rejection reason belongs to
// the open finding F-LOOSETOKENS.
func looseReason(r string) bool {
	switch r {
	case model.ReasonBadToken, model.ReasonBadPath, model.ReasonChainedCmp, model.ReasonOperandParen, model.ReasonNonBoolean, model.ReasonValueAsPath, model.ReasonPathAsValue, model.ReasonBoolOperand:
		return true
	}
	return false
}

type c09Info struct {
	refRejects bool
	reason     string
	tokens     int
	guarded    []string
	implErr    int
	implVal    int
}

func runC09(c c09Case, info *c09Info) *failure {
	info.tokens = len(model.TokenTexts(c.Expr))
	var condAST model.Expr
	var updAST model.Update
	var perr *model.SyntaxError
	if c.Kind == "cond" {
		condAST, perr = model.ParseCondition(c.Expr)
	} else {
		updAST, perr = model.ParseUpdate(c.Expr)
	}
	if perr != nil {
		info.refRejects, info.reason = true, perr.Reason
	}
	lang := &interpreter.Language{}
	if c.Warm != "" && len(c.Items) > 0 {
		wc := exprCase{Expr: c.Warm, Item: model.CloneItem(c.Items[len(c.Items)-1]), Names: c.Names, Values: c.Values, lang: lang}
		if c.Kind == "cond" {
			implMatch(wc)
		} else {
			implUpdate(wc)
		}
	}
	for i, item := range c.Items {
		ec := exprCase{Expr: c.Expr, Item: model.CloneItem(item), Names: c.Names, Values: c.Values, lang: lang}
		before := model.CanonItem(item)
		var got model.Outcome
		var gotItem model.Item
		var text string
		var rtp, failed bool
		finished := withWatchdog(func() {
			if c.Kind == "cond" {
				got, text, rtp = implMatch(ec)
			} else {
				gotItem, text, failed, rtp = implUpdate(ec)
			}
		})
		if !finished {
			return newFail("evaluation does not terminate", "%s %q on item %d", c.Kind, c.Expr, i)
		}
		if rtp {
			return newFail("runtime panic", "%s %q on item %d: %s", c.Kind, c.Expr, i, text)
		}
		if c.Kind == "update" {
			if failed {
				got = model.OE
				if model.CanonItem(gotItem) != before {
					return newFail("failed update changed the item", "%q on %s: %s", c.Expr, before, model.CanonItem(gotItem))
				}
			} else {
				got = model.OT
			}
		}
		if got == model.OE {
			info.implErr++
		} else {
			info.implVal++
		}
		env := model.Env{Item: item, Names: c.Names, Values: c.Values}
		if perr != nil {
			if got != model.OE {
				if looseReason(perr.Reason) && open("F-LOOSETOKENS") {
					info.guarded = append(info.guarded, "F-LOOSETOKENS")
					continue
				}
				return newFail("malformed expression accepted", "%s %q (%s) evaluated to %s on item %d", c.Kind, c.Expr, perr.Error(), got, i)
			}
			continue
		}
		// the reference grammar accepts the string: the implementation may
		// reject it, but if it evaluates it the value must be the model's
		if got == model.OE {
			continue
		}
		if c.Kind == "cond" {
			if ids := exprGuards(c.Names, pathsOf(condAST), item, c.Values, true); len(ids) > 0 {
				info.guarded = append(info.guarded, ids...)
				continue
			}
			want := model.EvalCond(condAST, env)
			if want == model.OE {
				continue // statically invalid (placeholders, reserved words): C16 decides
			}
			if !want.Has(got) {
				return newFail("expression partly or wrongly evaluated", "condition %q on %s: model %s, implementation %s", c.Expr, before, want, got)
			}
			continue
		}
		var paths []model.Path
		model.WalkUpdate(updAST, func(x model.Expr) {
			if p, ok := x.(model.Path); ok {
				paths = append(paths, p)
			}
		})
		ids := exprGuards(c.Names, paths, item, c.Values)
		for _, id := range model.UpdateGuards(updAST, item, env, nil) {
			if open(id) {
				ids = append(ids, id)
			}
		}
		if len(ids) > 0 {
			info.guarded = append(info.guarded, ids...)
			continue
		}
		res := model.ApplyUpdate(updAST, item, env, nil)
		if res.Weak || res.Spec || res.Err {
			continue
		}
		if !model.ItemEqual(res.Item, gotItem) {
			return newFail("expression partly or wrongly evaluated", "update %q on %s: model %s, implementation %s", c.Expr, before, model.CanonItem(res.Item), model.CanonItem(gotItem))
		}
	}
	// the empty string cannot be sent through the API: it means "no expression"
	if c.API && c.Expr != "" && perr != nil && !(looseReason(perr.Reason) && open("F-LOOSETOKENS")) {
		return c09API(c, perr)
	}
	return nil
}

// c09API sends a string the reference grammar rejects through Scan, Query,
// PutItem and UpdateItem on both clients: the outcome must be an error or the
// documented panic, never success and never a runtime panic.
func c09API(c c09Case, perr *model.SyntaxError) *failure {
	for _, d := range realDrivers() {
		d.Apply(model.Op{Kind: "CreateTable", Schema: sTable("tbl", false)})
		it := model.CloneItem(c.Items[len(c.Items)-1])
		it["pk"] = model.Str("k")
		d.Apply(model.Op{Kind: "Put", Table: "tbl", Item: it})
		names, values := pruneUnused(cloneNames(c.Names), model.CloneItem(c.Values), c.Expr)
		var ops []model.Op
		if c.Kind == "cond" {
			ops = []model.Op{
				{Kind: "Scan", Table: "tbl", Filter: c.Expr, Names: names, Values: values},
				{Kind: "Put", Table: "tbl", Item: it, Cond: c.Expr, Names: names, Values: values},
				{Kind: "Delete", Table: "tbl", Key: model.Item{"pk": model.Str("k")}, Cond: c.Expr, Names: names, Values: values},
			}
		} else {
			ops = []model.Op{{Kind: "Update", Table: "tbl", Key: model.Item{"pk": model.Str("k")}, Update: c.Expr, Names: names, Values: values}}
		}
		for _, op := range ops {
			if len(op.Names) == 0 {
				op.Names = nil
			}
			if len(op.Values) == 0 {
				op.Values = nil
			}
			before := d.Snapshot()
			r := d.Apply(op)
			if r.Err == model.ErrRuntimePanic {
				return newFail("runtime panic at the API", "%s %s %q: %s", d.Name(), op.Kind, c.Expr, r.ErrText)
			}
			if r.Err == "" {
				return newFail("malformed expression accepted at the API", "%s %s %q (%s)", d.Name(), op.Kind, c.Expr, perr.Error())
			}
			if d.Snapshot() != before {
				return newFail("failing request changed state", "%s %s %q", d.Name(), op.Kind, c.Expr)
			}
		}
	}
	return nil
}

func cloneNames(m map[string]string) map[string]string {
	out := make(map[string]string, len(m))
	for k, v := range m {
		out[k] = v
	}
	return out
}

var c09Fragments = []string{"a", "b", "s", "n", "m", "l", "flag", "#n0", "#n1", "#n2", "#n3", ":v0", ":v1", ":v2", ":v3", ":v4", ":v5",
	"=", "<>", "<", "<=", ">", ">=", "(", ")", ",", ".", "[", "]", "0", "1", "AND", "OR", "NOT", "BETWEEN", "IN", "and", "or", "not", "between", "in",
	"attribute_exists", "attribute_not_exists", "attribute_type", "begins_with", "contains", "size", "if_not_exists", "list_append",
	"SET", "REMOVE", "ADD", "DELETE", "set", "remove", "+", "-", "k", "m.k", "l[0]", "l[1]", " ", "  ", "\t", "!", "$", "'", "\"", "{", "a:b", "5", "a..b"}

// hostileConstants seed raw generation and the native fuzzing corpus.
var hostileConstants = []string{
	"", " ", "\t\n", "a = :x a = :y", "a = :x b = :y", "a = :x AND", "AND a = :x", "(a = :x", "a = :x)", "((a = :x)", "a = = :x",
	"a IN :x, :y)", "a IN (:x, :y", "a IN ()", "a BETWEEN :x", "a BETWEEN :x AND", "a BETWEEN :x OR :y", "NOT", "NOT NOT", "a",
	":x", "#a", "size(a)", "size(a) =", "attribute_exists()", "attribute_exists(a", "attribute_exists(a, b)", "begins_with(a)", "contains(a)",
	"foo(a)", "a = :x and a = :y", "a = :x or a = :y", "not a = :x", "a between :x and :y", "a in (:x)", "a.b.", ".a", "a[", "a[]", "a[x]", "a[1", "a]",
	"a = 5", "a:b = :x", "(flag)", "a = :x = :y", "a..b = :x", "a = :x,", ",", "a AND b", "a = :x AND (b", "a = :x OR OR b = :y",
	"SET", "SET a", "SET a =", "SET a = :x,", "SET a = :x b = :y", "SET a = :x SET b = :y", "REMOVE", "REMOVE a,", "ADD a", "DELETE a",
	"SET a = :x REMOVE", "set a = :x", "SET a = :x remove b", "SET a = :x + ", "SET a = :x + :y + :x", "SET a = list_append(:v5)", "SET a = if_not_exists(a)",
	"SET a = foo(:x)", "SET a = size(a)", "SET (a) = :x", "SET a = (:x)", "REMOVE a b", "ADD a :x :y", "SET a = :x junk", "SET a = :x )", "SET a[ = :x",
	strings.Repeat("(", 2000), strings.Repeat("(", 1000) + "a = :x" + strings.Repeat(")", 1000), strings.Repeat("NOT ", 1000) + "a = :x",
	strings.Repeat("a = :x AND ", 300) + "a = :x", strings.Repeat("a.", 2000), "a = :x" + strings.Repeat(" ", 4000), strings.Repeat("a", 4096),
	"caf\xe9 = :x", "SET caf\xe9 = :x", "\xb5 = :x", "µ = :x", "SET põe = :x", "\xaa = :x", "人 = :x", "е = :x", "attribute_exists(ê)", "REMOVE ú", "a = :x AND \xc0\xd6 = :y",
	"SET a = :x set b = :y", "set a = :x SET b = :y", "REMOVE a remove b", "ADD n :v1 SET a = :x add n :v1", "Set a = :x SET b = :y", "DELETE ss :v4 Delete ss :v4",
	"#cyc = :x", "attribute_exists(#cyc)", "SET #cyc = :x", "REMOVE #cyc", "#ch1 = :x", "SET a = #ch2", "#cyc.k = :x", "a.#ch1 = :x",
	"SET l[:big] = :x", "REMOVE l[:big]", "l[:big] = :x", "SET l[:neg1] = :x", "REMOVE l[:frac]", "SET l[:huge] = :x", "l[:v1] = :x", "SET l[:v1] = :x", "REMOVE m.k[:big]",
	"contains(l, nosuchfn(a))", "contains(l, NOT a)", "contains(ss, size())", "begins_with(s, nosuchfn(a))", "SET a = if_not_exists(a, nosuchfn(:x))", "SET a = if_not_exists(a, size())",
	"SET a = list_append(l, nosuchfn(:v5))", "a BETWEEN :x AND nosuchfn(b)", "a IN (:x, nosuchfn(b))",
	// functions of the update grammar as arguments of condition functions, and the reverse
	"attribute_exists(if_not_exists(zz, :x))", "begins_with(if_not_exists(zz, :x), :x)", "contains(if_not_exists(zz, ss), :x)", "size(list_append(l, :v5)) > :v1",
	"attribute_not_exists(list_append(l, :v5))", "attribute_type(if_not_exists(a, :x), :s)", "contains(list_append(l, :v5), :x)", "size(if_not_exists(zz, :v5)) = :v1",
	"SET a = if_not_exists(a, attribute_exists(b))", "SET a = list_append(l, contains(l, :x))", "SET a = if_not_exists(a, begins_with(s, :x))",
	"a = :x\x00", "\xff\xfe", "a = :x \x80", "é = :x", "a = :x -- comment", "a = 'lit'", "a = \"lit\"",
}

func drawC09(rt *rapid.T) (c09Case, string) {
	kind := rapid.SampledFrom([]string{"cond", "cond", "update"}).Draw(rt, "kind")
	c := c09Case{Kind: kind, Items: c09Items, Names: c09Names, Values: c09Values}
	mode := rapid.SampledFrom([]string{"mutation", "mutation", "mutation", "valid", "fragments", "constant", "bytes", "dirty-twin", "repeat", "case-twin", "bad-operand"}).Draw(rt, "mode")
	switch mode {
	case "mutation", "valid", "dirty-twin", "repeat", "case-twin", "bad-operand":
		o := avOpts(2, false)
		it := richItem(rt, o)
		ctx := gen.NewExprCtx(it, o).Style(rt)
		var text string
		var condAST model.Expr
		var updAST model.Update
		if kind == "cond" {
			condAST = ctx.Cond(rt, rapid.IntRange(0, 3).Draw(rt, "depth"))
			text = model.Render(condAST)
		} else {
			updAST = ctx.Update(rt, gen.UpdateCfg{MaxActions: 3})
			text = model.RenderUpdate(updAST)
		}
		if mode == "bad-operand" {
			// one operand (any leaf: comparison side, BETWEEN bound, IN member,
			// function argument, SET value, arithmetic term, ADD / DELETE operand)
			// replaced by a call that cannot be evaluated
			bad := rapid.SampledFrom([]model.Expr{
				model.Func{Name: "nosuchfn", Args: []model.Expr{model.P("a")}},
				model.Func{Name: "size"},
				model.Func{Name: "begins_with", Args: []model.Expr{model.P("a")}},
				model.Func{Name: "attribute_exists", Args: []model.Expr{model.P("a"), model.P("b")}},
			}).Draw(rt, "badOperand")
			leaves := 0
			count := func(x model.Expr) {
				switch x.(type) {
				case model.Path, model.ValueRef:
					leaves++
				}
			}
			if kind == "cond" {
				model.WalkExpr(condAST, count)
			} else {
				for _, cl := range updAST.Clauses {
					for _, a := range cl.Actions {
						model.WalkExpr(a.Value, count)
					}
				}
			}
			if leaves > 0 {
				target, seen := rapid.IntRange(0, leaves-1).Draw(rt, "badOperandAt"), 0
				sub := func(x model.Expr) model.Expr {
					switch x.(type) {
					case model.Path, model.ValueRef:
						seen++
						if seen-1 == target {
							return bad
						}
					}
					return x
				}
				if kind == "cond" {
					text = model.Render(model.MapExpr(condAST, sub))
				} else {
					out := model.Update{}
					for _, cl := range updAST.Clauses {
						nc := model.Clause{Kind: cl.Kind}
						for _, a := range cl.Actions {
							nc.Actions = append(nc.Actions, model.Action{Path: a.Path, Value: model.MapExpr(a.Value, sub)})
						}
						out.Clauses = append(out.Clauses, nc)
					}
					text = model.RenderUpdate(out)
				}
			}
		}
		if mode == "mutation" {
			n := rapid.IntRange(1, 2).Draw(rt, "nMut")
			for i := 0; i < n; i++ {
				text = mutateExpr(rt, text)
			}
			if rapid.IntRange(0, 5).Draw(rt, "lowerKw") == 0 {
				for _, kw := range []string{"AND", "OR", "NOT", "BETWEEN", "IN", "SET", "REMOVE", "ADD", "DELETE"} {
					text = strings.ReplaceAll(text, " "+kw+" ", " "+strings.ToLower(kw)+" ")
				}
			}
		}
		switch mode {
		case "dirty-twin":
			// the valid expression first, then a twin in which one separator is
			// a byte sequence some libraries treat as white space
			c.Warm = text
			toks := model.TokenTexts(text)
			if len(toks) > 1 {
				pos := rapid.IntRange(1, len(toks)-1).Draw(rt, "dirtyPos")
				ws := rapid.SampledFrom([]string{"\v", "\f", "\u00a0", "\u2003", "\u3000", "\u0085", "\x1f", " \v "}).Draw(rt, "dirtyWS")
				text = strings.Join(toks[:pos], " ") + ws + strings.Join(toks[pos:], " ")
			}
		case "repeat":
			// a malformed expression evaluated twice in one process
			text = mutateExpr(rt, text)
			c.Warm = text
		}
		c.Expr = text
		c.Names, c.Values = ctx.Names, ctx.Values
		if mode == "case-twin" {
			// a valid expression after a twin that differs only in the letter
			// case of one identifier, on the same interpreter instance
			var tw string
			var n2 map[string]string
			var v2 map[string]model.AV
			var ok bool
			if kind == "cond" {
				tw, n2, v2, ok = condCaseTwin(rt, condAST, ctx.Names, ctx.Values)
			} else {
				tw, n2, v2, ok = updateCaseTwin(rt, updAST, ctx.Names, ctx.Values)
			}
			if ok {
				c.Warm, c.Names, c.Values = tw, n2, v2
			}
		}
		c.Items = []model.Item{{}, it, richItem(rt, o)}
	case "fragments":
		parts := rapid.SliceOfN(rapid.SampledFrom(c09Fragments), 0, 14).Draw(rt, "frags")
		c.Expr = strings.Join(parts, rapid.SampledFrom([]string{" ", " ", ""}).Draw(rt, "sep"))
		if kind == "update" && rapid.Bool().Draw(rt, "setPrefix") {
			c.Expr = "SET " + c.Expr
		}
	case "constant":
		c.Expr = rapid.SampledFrom(hostileConstants).Draw(rt, "const")
	default:
		b := rapid.SliceOfN(rapid.Byte(), 0, 60).Draw(rt, "bytes")
		c.Expr = string(b)
	}
	if len(c.Expr) > model.MaxExprLen {
		c.Expr = c.Expr[:model.MaxExprLen]
	}
	c.API = rapid.IntRange(0, 19).Draw(rt, "api") == 0
	return c, mode
}

const ruleC09 = "rapid: expression strings for the condition and the update grammar - (a) one or two token-level mutations (drop, duplicate, replace, swap a token, append/prepend an operator, lower-case the keywords) of valid generated expressions, (b) random sequences of grammar fragments, (c) valid expressions in which one operand - any leaf - is replaced by a call that cannot be evaluated (unknown function, wrong arity), (c') hostile constants (list positions given by number placeholders up to 2^63, juxtaposed clauses, unbalanced and 2000-deep parentheses, 4096-byte inputs, wrong arities, bare literals, illegal bytes), (d) raw bytes, (e) a valid expression followed by a twin whose separator is an exotic white-space byte sequence, a valid expression preceded by a twin that differs in the letter case of one identifier, and malformed expressions evaluated repeatedly, always on one interpreter instance per case; each evaluated with interpreter.Language.Match / Update against 3-4 items under a watchdog. Oracle: totality (no runtime panic, returns within the watchdog), strictness (a string rejected by the liberal reference recogniser must be rejected; a string it accepts is either rejected or evaluates to exactly the reference value / item on every item; a rejected update leaves the item unchanged), and for a sample the client API on both SDK clients (error or documented panic, never success, state unchanged). Non-trivial = string of >= 3 tokens that the reference recogniser rejects, or accepts while the implementation evaluates it; distinct = hash of (kind, string)."

// TestC09 decides property C09.
func TestC09(t *testing.T) {
	st := stats.For("C09")
	st.SetRule(ruleC09)
	rapid.Check(t, func(rt *rapid.T) {
		c, mode := drawC09(rt)
		pending("C09", "c09", c)
		info := &c09Info{}
		f := runC09(c, info)
		for _, id := range info.guarded {
			st.Exclude(id)
		}
		st.Case(info.tokens >= 3 && (info.refRejects || info.implVal > 0), []string{c.Kind, c.Expr})
		st.Class("mode-" + mode)
		st.Class("grammar-" + c.Kind)
		if info.refRejects {
			st.Class("rejected-" + info.reason)
		} else {
			st.Class("reference-accepts")
		}
		if c.API {
			st.Class("also-through-the-client-API")
		}
		if f != nil {
			failCase(rt, "C09", "c09", f, c)
		}
	})
}

func init() {
	replayers["c09"] = func(raw json.RawMessage) *failure {
		var c c09Case
		if err := json.Unmarshal(raw, &c); err != nil {
			return newFail("bad replay file", "%v", err)
		}
		return runC09(c, &c09Info{})
	}
}

func fuzzC09(f *testing.F, kind string) {
	for _, s := range hostileConstants {
		f.Add([]byte(s))
	}
	f.Fuzz(func(t *testing.T, data []byte) {
		if len(data) > model.MaxExprLen {
			data = data[:model.MaxExprLen]
		}
		c := c09Case{Kind: kind, Expr: string(data), Items: c09Items, Names: c09Names, Values: c09Values}
		if fl := runC09(c, &c09Info{}); fl != nil {
			writeReplay("C09", "c09", fl.Class, fl.Detail, c)
			t.Fatalf("C09: %s: %s", fl.Class, fmt.Sprintf("%.300s", fl.Detail))
		}
	})
}

// FuzzC09Condition is the native fuzz target for the condition grammar.
func FuzzC09Condition(f *testing.F) { fuzzC09(f, "cond") }

// FuzzC09Update is the native fuzz target for the update grammar.
func FuzzC09Update(f *testing.F) { fuzzC09(f, "update") }

package props

import (
	"sort"
	"strings"

	"pgregory.net/rapid"

	"verifharness/gen"
	"verifharness/model"
)

// flipCase swaps the case of the first ASCII letter of an identifier (after
// the # or : of a placeholder); ok is false when there is none.
func flipCase(id string) (string, bool) {
	for i := 0; i < len(id); i++ {
		c := id[i]
		switch {
		case c >= 'a' && c <= 'z':
			return id[:i] + string(c-32) + id[i+1:], true
		case c >= 'A' && c <= 'Z':
			return id[:i] + string(c+32) + id[i+1:], true
		}
	}
	return id, false
}

// twinIdentifiers lists the identifiers of an expression whose case can be
// flipped: bare attribute names, #aliases and :values.
func twinIdentifiers(visit func(func(model.Expr))) []string {
	seen := map[string]bool{}
	visit(func(x model.Expr) {
		switch v := x.(type) {
		case model.Path:
			for _, el := range v.Elems {
				if !el.IsIndex {
					seen[el.Name] = true
				}
			}
		case model.ValueRef:
			seen[v.Name] = true
		}
	})
	var out []string
	for id := range seen {
		f, ok := flipCase(id)
		if !ok || seen[f] || exprKeywords[strings.ToUpper(f)] || model.IsReserved(f) {
			continue
		}
		out = append(out, id)
	}
	sort.Strings(out)
	return out
}

// twinRename returns the node rewriter that renames identifier from -> to.
func twinRename(from, to string) func(model.Expr) model.Expr {
	return func(x model.Expr) model.Expr {
		switch v := x.(type) {
		case model.Path:
			elems := append([]model.PathElem{}, v.Elems...)
			for i := range elems {
				if !elems[i].IsIndex && elems[i].Name == from {
					elems[i].Name = to
				}
			}
			return model.Path{Elems: elems}
		case model.ValueRef:
			if v.Name == from {
				return model.ValueRef{Name: to}
			}
		}
		return x
	}
}

// twinMaps adds the renamed placeholder to copies of the maps (the original
// key stays: the twin is evaluated beside the original).
func twinMaps(from, to string, names map[string]string, values map[string]model.AV) (map[string]string, map[string]model.AV) {
	n2 := map[string]string{}
	for k, v := range names {
		n2[k] = v
	}
	v2 := map[string]model.AV{}
	for k, v := range values {
		v2[k] = v.Clone()
	}
	if v, ok := names[from]; ok {
		n2[to] = v
	}
	if v, ok := values[from]; ok {
		v2[to] = v.Clone()
	}
	return n2, v2
}

// condCaseTwin draws a twin of a condition that differs from it only in the
// letter case of one identifier - a different expression that any
// case-insensitive treatment of expression text confuses with the original.
func condCaseTwin(rt *rapid.T, e model.Expr, names map[string]string, values map[string]model.AV) (string, map[string]string, map[string]model.AV, bool) {
	ids := twinIdentifiers(func(f func(model.Expr)) { model.WalkExpr(e, f) })
	if len(ids) == 0 {
		return "", nil, nil, false
	}
	from := rapid.SampledFrom(ids).Draw(rt, "twinIdentifier")
	to, _ := flipCase(from)
	n2, v2 := twinMaps(from, to, names, values)
	return model.Render(model.MapExpr(e, twinRename(from, to))), n2, v2, true
}

// updateCaseTwin is condCaseTwin for update expressions.
func updateCaseTwin(rt *rapid.T, u model.Update, names map[string]string, values map[string]model.AV) (string, map[string]string, map[string]model.AV, bool) {
	ids := twinIdentifiers(func(f func(model.Expr)) { model.WalkUpdate(u, f) })
	if len(ids) == 0 {
		return "", nil, nil, false
	}
	from := rapid.SampledFrom(ids).Draw(rt, "twinIdentifier")
	to, _ := flipCase(from)
	n2, v2 := twinMaps(from, to, names, values)
	return model.RenderUpdate(model.MapUpdate(u, twinRename(from, to))), n2, v2, true
}

// twinValue draws a value of the same shape as v (same type, same map field
// names, same list length, same set size where possible) with other contents.
func twinValue(rt *rapid.T, v model.AV, o gen.AVOpts) model.AV {
	switch v.T {
	case "S":
		return model.Str(v.S + rapid.SampledFrom([]string{"x", "~", "0"}).Draw(rt, "twinS"))
	case "N":
		d := model.MustDec(v.S).Add(model.MustDec(rapid.SampledFrom([]string{"1", "-1", "2"}).Draw(rt, "twinN")))
		if n := d.Plain(); d.InRange() && (!o.FloatExact || model.FloatExact(n)) {
			return model.Num(n)
		}
		return model.Num("7")
	case "B":
		return model.Bin(append(append([]byte{}, v.B...), 0x7e))
	case "BOOL":
		return model.Bool(!v.Bool)
	case "SS":
		out := model.StrSet()
		for _, s := range v.SS {
			out.SS = append(out.SS, s+"~")
		}
		return out
	case "L":
		out := model.List()
		for _, e := range v.L {
			out.L = append(out.L, twinValue(rt, e, o))
		}
		return out
	case "M":
		out := model.Map(nil)
		for k, e := range v.M {
			out.M[k] = twinValue(rt, e, o)
		}
		return out
	}
	return v.Clone()
}

// valueTwin returns bindings of the same names and shapes with other contents.
func valueTwin(rt *rapid.T, values map[string]model.AV, o gen.AVOpts) map[string]model.AV {
	keys := make([]string, 0, len(values))
	for k := range values {
		keys = append(keys, k)
	}
	sort.Strings(keys)
	out := map[string]model.AV{}
	for _, k := range keys {
		out[k] = twinValue(rt, values[k], o)
	}
	return out
}

// sortedKeys returns the keys of a placeholder map in order.
func sortedKeys(m map[string]string) []string {
	out := make([]string, 0, len(m))
	for k := range m {
		out = append(out, k)
	}
	sort.Strings(out)
	return out
}

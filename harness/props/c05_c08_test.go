package props

import (
	"strings"
	"testing"

	"pgregory.net/rapid"

	"verifharness/gen"
	"verifharness/model"
	"verifharness/stats"
)

// condWriteOp draws a conditional Put / Update / Delete on a pool key. The
// condition is generated over the stored item of the target or of another
// item of the table (so that it is often true for one and false for the
// other).
func (g *tgen) condWriteOp(rt *rapid.T, db *model.DB, allowRetOnFail bool) model.Op {
	t := db.Tables[g.s.Table]
	key := g.key(rt)
	cur := stored(db, g.s.Table, key)
	ctxItem := cur
	others := t.View("")
	if len(others) > 0 && (cur == nil || rapid.IntRange(0, 9).Draw(rt, "condFromOther") < 5) {
		ctxItem = rapid.SampledFrom(others).Draw(rt, "condCtxItem")
	}
	c := gen.NewExprCtx(ctxItem, g.o).Style(rt)
	c.IllTyped = 5
	c.NoNested = rapid.IntRange(0, 3).Draw(rt, "flatCond") > 0
	var cond model.Expr
	switch rapid.IntRange(0, 9).Draw(rt, "condShape") {
	case 0, 1:
		cond = model.Func{Name: "attribute_not_exists", Args: []model.Expr{model.Path{Elems: []model.PathElem{{Name: c.NameTok(rt, g.s.Hash)}}}}}
	case 2:
		cond = model.Func{Name: "attribute_exists", Args: []model.Expr{model.Path{Elems: []model.PathElem{{Name: c.NameTok(rt, g.s.Hash)}}}}}
	default:
		cond = c.Cond(rt, 2)
	}
	op := model.Op{Table: g.s.Table, Cond: model.Render(cond)}
	switch rapid.IntRange(0, 2).Draw(rt, "condWriteKind") {
	case 0:
		op.Kind = "Put"
		it := g.item(rt)
		for k, v := range key {
			it[k] = v
		}
		op.Item = it
	case 1:
		op.Kind = "Update"
		op.Key = key
		base := cur
		if base == nil {
			base = key
		}
		// the update is generated over the real target, sharing placeholders
		save := c.Item
		c.Item = base
		u := c.Update(rt, gen.UpdateCfg{MaxActions: 2, KeyAttrs: g.s.KeyAttrs(), ExtraTargets: g.ixAttrs(), ExtraValues: g.ixVals})
		c.Item = save
		op.Update = model.RenderUpdate(u)
		op.ReturnOnCondFail = allowRetOnFail && rapid.Bool().Draw(rt, "retOnFail")
	default:
		op.Kind = "Delete"
		op.Key = key
		op.ReturnOld = rapid.Bool().Draw(rt, "returnOld")
	}
	op.Names, op.Values = c.Names, c.Values
	return normOp(op)
}

const ruleC05 = "rapid: generated schema (0-2 indexes), table populated with 0-6 items through a write history, then conditional PutItem / UpdateItem / DeleteItem on pool keys whose condition (existence guards on the key, comparisons, functions, compounds) is generated over the target's stored item or over another stored item, twins of earlier conditions that differ only in the letter case of one attribute name or placeholder, earlier requests repeated with values of the same shape and other contents, and updates of other items that are rejected while being evaluated; both SDK clients against the reference model: the write is applied iff the model evaluates the condition true on the target's own stored item (empty item if none); on refusal the error class is ConditionalCheckFailed, the complete internal snapshot (table, every index) is unchanged, and (v2 UpdateItem, when requested) the carried item equals the stored item; after every step full scans of table and indexes are compared. Non-trivial = conditional write for which some other stored item evaluates the condition differently from the target; distinct = hash of (table contents, request)."

// TestC05 decides property C05.
func TestC05(t *testing.T) {
	st := stats.For("C05")
	st.SetRule(ruleC05)
	rapid.Check(t, func(rt *rapid.T) {
		w := newWorld("C05", worldCfg{V1: true, V2: true, WhiteBox: true, IndexReads: true})
		w.drawCheckPeriod(rt)
		s := drawSchema(rt, "tbl", schemaCfg{KeyTypes: []string{"S"}, MaxIndexes: 2})
		o := avOpts(2, true)
		g := newTgen(rt, s, o, rapid.IntRange(3, 7).Draw(rt, "poolSize"))
		g.maxAttrs = 3
		// attribute names that differ only in letter case are different attributes
		g.attrNames = append(append([]string{}, gen.AttrNames...), "A", "B", "Flag")
		g.failClasses = []string{"ill-typed-update", "last-action-fails"}
		var lastCond *model.Op
		fail := func(f *failure) {
			if f != nil {
				failCase(rt, "C05", "history:C05", f, w.asCase())
			}
		}
		conds := 0
		defer func() {
			st.Step(w.steps)
			if conds == 0 {
				st.Case(false, nil)
			}
		}()
		_, _, f := w.do(model.Op{Kind: "CreateTable", Schema: &s})
		fail(f)
		n := rapid.IntRange(0, 6).Draw(rt, "bystanders")
		for i := 0; i < n; i++ {
			_, _, f := w.do(model.Op{Kind: "Put", Table: s.Table, Item: g.item(rt)})
			fail(f)
		}
		condWrite := func(rt *rapid.T, op model.Op) {
			before := w.m
			res, status, f := w.do(op)
			fail(f)
			if status != stepDone {
				return
			}
			lastCond = &op
			conds++
			// non-triviality: does some bystander evaluate the condition differently?
			bt := before.Tables[s.Table]
			var key model.Item
			if op.Kind == "Put" {
				key = bt.KeyItem(op.Item)
			} else {
				key = op.Key
			}
			target := stored(before, s.Table, key)
			e, perr := model.ParseCondition(op.Cond)
			nt := false
			if perr == nil {
				own := model.EvalCond(e, model.Env{Item: orEmpty(target), Names: op.Names, Values: op.Values})
				for ck, it := range bt.Items {
					if tk, _ := bt.KeyOf(key); tk == ck {
						continue
					}
					other := model.EvalCond(e, model.Env{Item: it, Names: op.Names, Values: op.Values})
					if other.Single() && own.Single() && other != own {
						nt = true
					}
				}
			}
			st.Case(nt, []interface{}{model.CanonItems(bt.View("")), op})
			st.Class("cond-" + op.Kind)
			if res.Err == model.ErrCondFailed {
				st.Class("refused")
			} else if res.Err == "" {
				st.Class("applied")
			}
			if target == nil {
				st.Class("target-absent")
			}
		}
		rt.Repeat(map[string]func(*rapid.T){
			"condWrite": func(rt *rapid.T) { condWrite(rt, g.condWriteOp(rt, w.m, true)) },
			"caseTwin": func(rt *rapid.T) {
				// the condition of an earlier request with the letter case of one
				// identifier flipped: another expression, on another attribute or
				// placeholder
				if lastCond == nil {
					return
				}
				e, err := model.ParseCondition(lastCond.Cond)
				if err != nil {
					return
				}
				tw, n2, v2, ok := condCaseTwin(rt, e, lastCond.Names, lastCond.Values)
				if !ok {
					return
				}
				op := model.Op{Kind: "Delete", Table: s.Table, Key: g.key(rt), Cond: tw, Names: n2, Values: v2}
				if rapid.Bool().Draw(rt, "twinPut") {
					it := g.item(rt)
					op = model.Op{Kind: "Put", Table: s.Table, Item: it, Cond: tw, Names: n2, Values: v2}
				}
				st.Class("case-twin-of-an-earlier-condition")
				condWrite(rt, normOp(op))
			},
			"rejectedUpdate": func(rt *rapid.T) {
				// an update that is rejected while it is being evaluated, on some item:
				// the conditional writes that follow are decided on their own targets
				if rapid.IntRange(0, 5).Draw(rt, "reallyRejected") != 3 {
					return
				}
				op, _ := g.failingOp(rt, w.m)
				op.TrySpec = true
				_, _, f := w.do(op)
				fail(f)
				st.Class("update-rejected-during-evaluation")
			},
			"valueTwin": func(rt *rapid.T) {
				// an earlier condition again - same text, same placeholder names -
				// with values of the same shape (same map field names, list
				// lengths, types) and other contents
				if lastCond == nil || len(lastCond.Values) == 0 {
					return
				}
				op := *lastCond
				op.Values = valueTwin(rt, lastCond.Values, o)
				if op.Kind == "Put" {
					op.Item = g.item(rt)
				} else {
					op.Key = g.key(rt)
				}
				st.Class("value-twin-of-an-earlier-request")
				condWrite(rt, normOp(op))
			},
			"put": func(rt *rapid.T) {
				_, _, f := w.do(model.Op{Kind: "Put", Table: s.Table, Item: g.item(rt)})
				fail(f)
			},
			"": func(rt *rapid.T) { fail(w.maybeCheck()) },
		})
		fail(w.check())
	})
}

func orEmpty(it model.Item) model.Item {
	if it == nil {
		return model.Item{}
	}
	return it
}

// mutateExpr breaks an expression text at token level.
func mutateExpr(rt *rapid.T, s string) string {
	toks := model.TokenTexts(s)
	if len(toks) == 0 {
		return s + " ("
	}
	i := rapid.IntRange(0, len(toks)-1).Draw(rt, "mutPos")
	switch rapid.IntRange(0, 5).Draw(rt, "mutKind") {
	case 0:
		toks = append(toks[:i:i], toks[i+1:]...)
	case 1:
		toks = append(toks[:i+1:i+1], append([]string{toks[i]}, toks[i+1:]...)...)
	case 2:
		toks[i] = rapid.SampledFrom([]string{"(", ")", "AND", "=", ",", "<>", "!", "$", "SET"}).Draw(rt, "mutTok")
	case 3:
		toks = append(toks, rapid.SampledFrom([]string{"AND", "(", "=", "OR", ","}).Draw(rt, "mutTail"))
	case 4:
		toks = append([]string{rapid.SampledFrom([]string{")", "AND", "=", ","}).Draw(rt, "mutHead")}, toks...)
	default:
		if len(toks) > 1 {
			j := rapid.IntRange(0, len(toks)-1).Draw(rt, "mutSwap")
			toks[i], toks[j] = toks[j], toks[i]
		}
	}
	return strings.Join(toks, " ")
}

// failingOp draws a request that DynamoDB rejects, of one of the error classes.
func (g *tgen) failingOp(rt *rapid.T, db *model.DB) (model.Op, string) {
	t := db.Tables[g.s.Table]
	classes := g.failClasses
	if classes == nil {
		classes = []string{"missing-key-attr", "wrong-typed-key", "unknown-table", "unused-placeholder", "malformed-placeholder",
			"failed-condition", "malformed-expression", "ill-typed-update", "last-action-fails", "index-key-type-put", "index-key-type-update",
			"batch-unknown-table", "batch-bad-key", "batch-index-key-type", "key-attr-update", "oversized-index-key", "malformed-update", "invalid-return-values", "too-deep-document"}
	}
	class := rapid.SampledFrom(classes).Draw(rt, "failClass")
	key := g.key(rt)
	badKey := func() model.Item {
		k := model.CloneItem(key)
		if class == "missing-key-attr" {
			attrs := g.s.KeyAttrs()
			delete(k, rapid.SampledFrom(attrs).Draw(rt, "dropKeyAttr"))
		} else {
			a := rapid.SampledFrom(g.s.KeyAttrs()).Draw(rt, "retypeKeyAttr")
			if g.s.Attrs[a] == "N" {
				k[a] = model.Str("7")
			} else {
				k[a] = model.Num("7")
			}
		}
		return k
	}
	simpleUpdate := func(k model.Item) model.Op {
		return model.Op{Kind: "Update", Table: g.s.Table, Key: k, Update: "SET extra = :x", Values: map[string]model.AV{":x": model.Str("y")}}
	}
	switch class {
	case "missing-key-attr", "wrong-typed-key":
		k := badKey()
		switch rapid.IntRange(0, 3).Draw(rt, "badKeyOp") {
		case 0:
			it := g.item(rt)
			for _, a := range g.s.KeyAttrs() {
				delete(it, a)
			}
			for a, v := range k {
				it[a] = v
			}
			return model.Op{Kind: "Put", Table: g.s.Table, Item: it}, class
		case 1:
			return simpleUpdate(k), class
		case 2:
			return model.Op{Kind: "Delete", Table: g.s.Table, Key: k}, class
		}
		return model.Op{Kind: "Get", Table: g.s.Table, Key: k}, class
	case "unknown-table":
		op := rapid.SampledFrom([]model.Op{
			{Kind: "Put", Table: "nosuch", Item: g.item(rt)},
			simpleUpdate(key),
			{Kind: "Delete", Table: "nosuch", Key: key},
			{Kind: "Get", Table: "nosuch", Key: key},
			{Kind: "Scan", Table: "nosuch"},
		}).Draw(rt, "unknownTableOp")
		op.Table = "nosuch"
		return op, class
	case "unused-placeholder":
		op := simpleUpdate(key)
		if rapid.IntRange(0, 2).Draw(rt, "noExpressionAtAll") == 1 {
			// a plain put / delete / get that carries placeholders although it has no expression
			switch rapid.IntRange(0, 2).Draw(rt, "strayCarrier") {
			case 0:
				op = model.Op{Kind: "Put", Table: g.s.Table, Item: g.item(rt)}
			case 1:
				op = model.Op{Kind: "Delete", Table: g.s.Table, Key: key}
			default:
				op = model.Op{Kind: "Get", Table: g.s.Table, Key: key}
			}
			op.Names = map[string]string{"#unused": "a"}
			if op.Kind != "Get" && rapid.Bool().Draw(rt, "strayValue") {
				op.Names, op.Values = nil, map[string]model.AV{":unused": model.Str("z")}
			}
			return op, class
		}
		if rapid.Bool().Draw(rt, "unusedName") {
			op.Names = map[string]string{"#unused": "a"}
		} else {
			op.Values[":unused"] = model.Str("z")
		}
		return op, class
	case "malformed-placeholder":
		op := simpleUpdate(key)
		if rapid.Bool().Draw(rt, "badName") {
			op.Update = "SET #a-b = :x"
			op.Names = map[string]string{"#a-b": "a"}
		} else {
			op.Update = "SET extra = :x.y"
			op.Values = map[string]model.AV{":x.y": model.Str("y")}
		}
		return op, class
	case "failed-condition":
		op := g.condWriteOp(rt, db, false)
		return op, class
	case "malformed-expression":
		op := g.condWriteOp(rt, db, false)
		if op.Kind == "Update" && rapid.Bool().Draw(rt, "breakUpdate") {
			op.Update = mutateExpr(rt, op.Update)
		} else {
			op.Cond = mutateExpr(rt, op.Cond)
		}
		return op, class
	case "ill-typed-update", "last-action-fails":
		cur := stored(db, g.s.Table, key)
		base := cur
		if base == nil {
			base = key
		}
		c := gen.NewExprCtx(base, g.o).Style(rt)
		cfg := gen.UpdateCfg{MaxActions: 1, KeyAttrs: g.s.KeyAttrs(), IllTyped: 100}
		bad := c.Update(rt, cfg)
		u := bad
		if class == "last-action-fails" {
			good := c.Update(rt, gen.UpdateCfg{MaxActions: 2, KeyAttrs: g.s.KeyAttrs(), ExtraTargets: g.ixAttrs(), ExtraValues: g.ixVals})
			u = mergeUpdates(good, bad)
		}
		return normOp(model.Op{Kind: "Update", Table: g.s.Table, Key: key, Update: model.RenderUpdate(u), Names: c.Names, Values: c.Values}), class
	case "index-key-type-put", "index-key-type-update":
		attrs := g.ixAttrs()
		if len(attrs) == 0 {
			return simpleUpdate(badKey()), "wrong-typed-key"
		}
		a := rapid.SampledFrom(attrs).Draw(rt, "ixAttr")
		wrong := model.Num("7")
		if t.Schema.Attrs[a] == "N" {
			wrong = model.Str("wrong")
		}
		if class == "index-key-type-put" {
			it := g.item(rt)
			it[a] = wrong
			return model.Op{Kind: "Put", Table: g.s.Table, Item: it}, class
		}
		return model.Op{Kind: "Update", Table: g.s.Table, Key: key, Update: "SET extra = :x, #a = :w",
			Names: map[string]string{"#a": a}, Values: map[string]model.AV{":x": model.Str("y"), ":w": wrong}}, class
	case "batch-unknown-table":
		return model.Op{Kind: "BatchWrite", Batch: []model.TableBatch{
			{Table: g.s.Table, Reqs: []model.WriteReq{{Put: g.item(rt)}}},
			{Table: "nosuch", Reqs: []model.WriteReq{{Put: g.item(rt)}}},
		}}, class
	case "batch-bad-key":
		// valid puts and deletes of distinct keys plus one malformed request
		// (put or delete, key attribute missing or of the wrong type) at a
		// random position
		var reqs []model.WriteReq
		seen := map[string]bool{}
		n := rapid.IntRange(1, 4).Draw(rt, "batchValid")
		for i := 0; i < n; i++ {
			it := g.item(rt)
			k := t.KeyItem(it)
			if ck := model.CanonItem(k); !seen[ck] {
				seen[ck] = true
				if rapid.Bool().Draw(rt, "validIsDelete") {
					reqs = append(reqs, model.WriteReq{Delete: k})
				} else {
					reqs = append(reqs, model.WriteReq{Put: it})
				}
			}
		}
		class = "wrong-typed-key"
		if rapid.Bool().Draw(rt, "badIsMissing") {
			class = "missing-key-attr"
		}
		bk := badKey()
		class = "batch-bad-key"
		var bad model.WriteReq
		if rapid.Bool().Draw(rt, "badIsDelete") {
			bad = model.WriteReq{Delete: bk}
		} else {
			it := g.item(rt)
			for _, a := range g.s.KeyAttrs() {
				delete(it, a)
			}
			for a, v := range bk {
				it[a] = v
			}
			bad = model.WriteReq{Put: it}
		}
		pos := rapid.IntRange(0, len(reqs)).Draw(rt, "badPos")
		reqs = append(reqs[:pos:pos], append([]model.WriteReq{bad}, reqs[pos:]...)...)
		return model.Op{Kind: "BatchWrite", Batch: []model.TableBatch{{Table: g.s.Table, Reqs: reqs}}}, class
	case "invalid-return-values":
		// a ReturnValues value DynamoDB does not allow for the operation
		switch rapid.IntRange(0, 2).Draw(rt, "invalidRVOp") {
		case 0:
			return model.Op{Kind: "Delete", Table: g.s.Table, Key: key, ReturnValues: rapid.SampledFrom([]string{"UPDATED_OLD", "ALL_NEW", "UPDATED_NEW"}).Draw(rt, "rv")}, class
		case 1:
			return model.Op{Kind: "Put", Table: g.s.Table, Item: g.item(rt), ReturnValues: rapid.SampledFrom([]string{"UPDATED_OLD", "ALL_NEW", "UPDATED_NEW"}).Draw(rt, "rv")}, class
		}
		op := simpleUpdate(key)
		op.ReturnValues = "SOME"
		return op, class
	case "malformed-update":
		// an update expression that is not a sentence of the grammar, without a
		// condition (so that no other defect of the request competes with it)
		text := rapid.SampledFrom([]string{"SET extra = :x SET b = :x", "SET extra = :x REMOVE", "extra SET extra = :x", "SET extra = :x,", "SET = :x", "SET extra :x",
			"ADD extra", "REMOVE extra, SET b = :x", "SET extra = :x b = :x", "DELETE extra :x :x"}).Draw(rt, "malformedUpdate")
		op := model.Op{Kind: "Update", Table: g.s.Table, Key: key, Update: text}
		if strings.Contains(text, ":x") {
			op.Values = map[string]model.AV{":x": model.Str("y")}
		}
		return op, class
	case "too-deep-document":
		// a value nested just beyond DynamoDB's 32 levels (the library may or may
		// not refuse it; if it does, after which of the expression's actions?)
		depth := rapid.SampledFrom([]int{33, 34, 40}).Draw(rt, "nesting")
		doc := model.Str("leaf")
		for i := 0; i < depth; i++ {
			if (i+depth)%3 == 0 {
				doc = model.List(doc)
			} else {
				doc = model.Map(map[string]model.AV{"d": doc})
			}
		}
		if rapid.IntRange(0, 3).Draw(rt, "deepPut") == 2 {
			it := g.item(rt)
			it["doc"] = doc
			return model.Op{Kind: "Put", Table: g.s.Table, Item: it}, class
		}
		return model.Op{Kind: "Update", Table: g.s.Table, Key: key, Update: "SET extra = :x, doc = :doc",
			Values: map[string]model.AV{":x": model.Str("y"), ":doc": doc}}, class
	case "oversized-index-key":
		// an index key value beyond DynamoDB's size limits (1024 bytes for a sort
		// key, 2048 for a partition key), at and just above the boundary
		attrs := g.ixAttrs()
		var cands []string
		for _, a := range attrs {
			if t.Schema.Attrs[a] != "N" {
				cands = append(cands, a)
			}
		}
		if len(cands) == 0 {
			return simpleUpdate(badKey()), "wrong-typed-key"
		}
		a := rapid.SampledFrom(cands).Draw(rt, "ixAttr")
		n := rapid.SampledFrom([]int{1024, 1025, 2048, 2049, 3000}).Draw(rt, "keyBytes")
		big := model.Str(strings.Repeat("k", n))
		if t.Schema.Attrs[a] == "B" {
			big = model.Bin([]byte(strings.Repeat("k", n)))
		}
		if rapid.Bool().Draw(rt, "oversizedPut") {
			it := g.item(rt)
			it[a] = big
			return model.Op{Kind: "Put", Table: g.s.Table, Item: it}, class
		}
		return model.Op{Kind: "Update", Table: g.s.Table, Key: key, Update: "SET extra = :x, #a = :w",
			Names: map[string]string{"#a": a}, Values: map[string]model.AV{":x": model.Str("y"), ":w": big}}, class
	case "batch-index-key-type":
		// valid puts and deletes of distinct keys plus one put whose index key
		// attribute has the wrong type, at a random position
		attrs := g.ixAttrs()
		if len(attrs) == 0 {
			return simpleUpdate(badKey()), "wrong-typed-key"
		}
		a := rapid.SampledFrom(attrs).Draw(rt, "ixAttr")
		wrong := model.Num("7")
		if t.Schema.Attrs[a] == "N" {
			wrong = model.Str("wrong")
		}
		var reqs []model.WriteReq
		seen := map[string]bool{}
		bad := g.item(rt)
		bad[a] = wrong
		seen[model.CanonItem(t.KeyItem(bad))] = true
		n := rapid.IntRange(1, 4).Draw(rt, "batchValid")
		for i := 0; i < n; i++ {
			it := g.item(rt)
			k := t.KeyItem(it)
			if ck := model.CanonItem(k); !seen[ck] {
				seen[ck] = true
				if rapid.Bool().Draw(rt, "validIsDelete") {
					reqs = append(reqs, model.WriteReq{Delete: k})
				} else {
					reqs = append(reqs, model.WriteReq{Put: it})
				}
			}
		}
		pos := rapid.IntRange(0, len(reqs)).Draw(rt, "badPos")
		reqs = append(reqs[:pos:pos], append([]model.WriteReq{{Put: bad}}, reqs[pos:]...)...)
		return model.Op{Kind: "BatchWrite", Batch: []model.TableBatch{{Table: g.s.Table, Reqs: reqs}}}, class
	default: // key-attr-update
		a := rapid.SampledFrom(g.s.KeyAttrs()).Draw(rt, "keyAttr")
		v := drawKeyValue(rt, g.s.Attrs[a], g.o, "newKeyVal")
		names := map[string]string{"#k": a}
		switch rapid.IntRange(0, 5).Draw(rt, "keyAttrUpdateShape") {
		case 1:
			// the key attribute removed, after another action of the same expression
			return model.Op{Kind: "Update", Table: g.s.Table, Key: key, Update: "SET extra = :x REMOVE #k",
				Names: names, Values: map[string]model.AV{":x": model.Str("y")}}, class
		case 2:
			return model.Op{Kind: "Update", Table: g.s.Table, Key: key, Update: "REMOVE #k", Names: names}, class
		case 3, 4:
			// the key attribute re-typed
			v = model.Num("7")
			if g.s.Attrs[a] == "N" {
				v = model.Str("seven")
			}
			if rapid.Bool().Draw(rt, "retypedKeyFirst") {
				return model.Op{Kind: "Update", Table: g.s.Table, Key: key, Update: "SET #k = :k, extra = :x",
					Names: names, Values: map[string]model.AV{":x": model.Str("y"), ":k": v}}, class
			}
		}
		return model.Op{Kind: "Update", Table: g.s.Table, Key: key, Update: "SET extra = :x, #k = :k",
			Names: names, Values: map[string]model.AV{":x": model.Str("y"), ":k": v}}, class
	}
}

// mergeUpdates puts the actions of b after those of a, clause by clause.
func mergeUpdates(a, b model.Update) model.Update {
	out := model.Update{}
	idx := map[string]int{}
	for _, u := range []model.Update{a, b} {
		for _, c := range u.Clauses {
			i, ok := idx[c.Kind]
			if !ok {
				idx[c.Kind] = len(out.Clauses)
				out.Clauses = append(out.Clauses, model.Clause{Kind: c.Kind})
				i = len(out.Clauses) - 1
			}
			out.Clauses[i].Actions = append(out.Clauses[i].Actions, c.Actions...)
		}
	}
	return out
}

const ruleC08 = "rapid state machine: C01/C03-style write history on a table with 0-3 indexes, in which about half of the steps are requests built to fail, one generator per error class (missing / wrongly typed key attribute, unknown table, unused or malformed placeholder, failed condition, token-mutated expression, ill-typed update, multi-action update whose last action fails, index-key type mismatch on Put and Update, index key values at and above DynamoDB's size limits, failing sub-request inside a batch (malformed key, index-key type mismatch), update of a key attribute, malformed update text, ReturnValues values the operation does not allow, any request under emulated failure), plus UpdateTable index creation on the populated table (on attributes that stored items hold with another type; re-declaring the type of an index key attribute) and index deletion, also immediately followed by the creation of another index; for every request that the implementation rejects (error or documented panic) the complete internal snapshot of every table and index and the full observable state are compared before and after on both SDK clients. Once a request that the reference model expects to fail is accepted by the implementation (whether it must fail is decided by C09/C13/C16, not here) the model can no longer follow the state: the rest of the history is sent without model, and only the no-trace comparison of the internal snapshots around every failing request continues. Non-trivial = a failing request executed against a non-empty table that has at least one index; distinct = hash of the operation list."

// TestC08 decides property C08.
func TestC08(t *testing.T) {
	st := stats.For("C08")
	st.SetRule(ruleC08)
	rapid.Check(t, func(rt *rapid.T) {
		w := newWorld("C08", worldCfg{V1: true, V2: true, WhiteBox: true, IndexReads: true, Speculate: true, ErrorsSpeculative: true, KeyMutSpeculative: true})
		s := drawSchema(rt, "tbl", schemaCfg{KeyTypes: []string{"S", "S", "N"}, MaxIndexes: 3})
		o := avOpts(2, true)
		g := newTgen(rt, s, o, rapid.IntRange(3, 5).Draw(rt, "poolSize"))
		g.maxAttrs = 3
		if rapid.Bool().Draw(rt, "smallAttrPool") {
			// few attribute names, of any type: an index created later on "a" or
			// "b" meets items that hold it with a wrong type
			g.attrNames = []string{"a", "b", "c"}
		}
		lateIdx := 0
		g.redeclare = true
		fail := func(f *failure) {
			if f != nil {
				failCase(rt, "C08", "history:C08", f, w.asCase())
			}
		}
		nontrivial := false
		diverged := false
		defer func() {
			st.Case(nontrivial, w.Ops)
			st.Step(w.steps)
		}()
		// exec runs one request. Once a request that DynamoDB rejects has been
		// accepted the reference model cannot follow the state any more: the
		// rest of the history is sent blind, which still decides "a request
		// that fails leaves no trace" on the internal snapshots.
		exec := func(op model.Op) int {
			op.Blind = diverged
			_, status, f := w.do(op)
			fail(f)
			if status == stepDiverged {
				diverged = true
				st.Class("history-continued-blind")
			}
			return status
		}
		countRejected := func(status int, class string) {
			switch status {
			case stepRejected:
				st.Class("rejected-" + class)
				t := w.m.Tables[s.Table]
				if len(t.Items) > 0 && len(t.Schema.Indexes) > 0 {
					nontrivial = true
				}
			case stepDiverged:
				st.Class("accepted-" + class)
			case stepDone:
				st.Class("succeeded-" + class)
			}
		}
		exec(model.Op{Kind: "CreateTable", Schema: &s})
		rt.Repeat(map[string]func(*rapid.T){
			"put":    func(rt *rapid.T) { exec(model.Op{Kind: "Put", Table: s.Table, Item: g.item(rt)}) },
			"update": func(rt *rapid.T) { exec(normOp(g.updateOp(rt, w.m, 0))) },
			"delete": func(rt *rapid.T) { exec(model.Op{Kind: "Delete", Table: s.Table, Key: g.key(rt)}) },
			"failing": func(rt *rapid.T) {
				op, class := g.failingOp(rt, w.m)
				countRejected(exec(op), class)
			},
			"failing2": func(rt *rapid.T) {
				op, class := g.failingOp(rt, w.m)
				countRejected(exec(op), class)
			},
			"addIndex": func(rt *rapid.T) {
				if lateIdx >= 2 {
					return
				}
				op, ok := g.lateIndexOp(rt, w.m, lateIdx+1)
				if !ok {
					return
				}
				lateIdx++
				if exec(op) == stepDone {
					st.Class("index-added-to-populated-table")
				}
				g.adoptLateIndex(rt, w.m, op)
			},
			"delIndex": func(rt *rapid.T) {
				// an index deleted (and possibly another one created right after,
				// with no write in between)
				t := w.m.Tables[s.Table]
				var globals []model.IndexSchema
				for _, ix := range t.Schema.Indexes {
					if ix.Global {
						globals = append(globals, ix)
					}
				}
				if len(globals) == 0 || rapid.IntRange(0, 3).Draw(rt, "reallyDelIndex") != 2 {
					return
				}
				ix := rapid.SampledFrom(globals).Draw(rt, "delIx")
				if exec(model.Op{Kind: "DeleteIndex", Table: s.Table, Index: ix.Name}) == stepDone {
					st.Class("index-deleted")
					if t2 := w.m.Tables[s.Table]; t2 != nil {
						g.s = t2.Schema
					}
				}
				if lateIdx < 3 && rapid.Bool().Draw(rt, "replaceIndex") {
					if op, ok := g.lateIndexOp(rt, w.m, lateIdx+1); ok {
						lateIdx++
						exec(op)
						g.adoptLateIndex(rt, w.m, op)
					}
				}
			},
			"underFailure": func(rt *rapid.T) {
				// all draws first: an action abandoned by rapid in the middle
				// (a generator giving up) must not leave the failure switched on
				mode := rapid.SampledFrom([]string{"internal_server", "deprecated"}).Draw(rt, "failureMode")
				op := rapid.SampledFrom([]model.Op{
					{Kind: "Put", Table: s.Table, Item: g.item(rt)},
					normOp(g.updateOp(rt, w.m, 0)),
					{Kind: "Delete", Table: s.Table, Key: g.key(rt)},
				}).Draw(rt, "opUnderFailure")
				exec(model.Op{Kind: "SetFailure", Failure: mode})
				if exec(op) == stepRejected {
					st.Class("rejected-under-emulated-failure")
				}
				exec(model.Op{Kind: "SetFailure", Failure: "none"})
			},
			"": func(rt *rapid.T) {
				if !diverged {
					fail(w.check())
				}
			},
		})
	})
}

package props

import (
	"fmt"
	"testing"

	"pgregory.net/rapid"

	"verifharness/model"
	"verifharness/stats"
)

const ruleC01 = "rapid state machine: generated table schema (hash-only / hash+range, S/N/B keys), then Put / UpdateItem (SET, REMOVE, ADD, DELETE, upsert of absent keys) / DeleteItem (with and without ALL_OLD) / GetItem over a pool of 3-6 keys (for number keys in half of the cases adjacent 16-38 digit numbers, then without expressions), a fifth of the writes carrying a generated condition, and writes that are refused (key attribute missing or of the wrong type, wrongly typed or oversized index key, malformed update text, and the refused request sent a second time: the complete internal snapshot must be unchanged; if the implementation accepts a request DynamoDB rejects, the case ends there), executed on the SDK v1 and v2 clients and on the reference map model; after every step GetItem of every pool key, a full Scan, DescribeTable.ItemCount and the SortedKeys/Data white-box invariant are compared. Once per history at most: 65-130 distinct update texts on one key, then the first three texts again with another value. Non-trivial = history touching >= 2 distinct keys and containing an overwrite, a delete-then-reput, an update-created item or a delete of an absent key; distinct = distinct hash of the executed operation list."

// TestC01 decides property C01.
func TestC01(t *testing.T) {
	st := stats.For("C01")
	st.SetRule(ruleC01)
	rapid.Check(t, func(rt *rapid.T) {
		w := newWorld("C01", worldCfg{V1: true, V2: true, WhiteBox: true, GetKeys: true})
		w.drawCheckPeriod(rt)
		s := drawSchema(rt, "tbl", schemaCfg{KeyTypes: []string{"S", "S", "N", "B"}, MaxIndexes: 1})
		o := avOpts(3, true)
		g := newTgen(rt, s, o, rapid.IntRange(3, 6).Draw(rt, "poolSize"))
		// number keys that differ only beyond float64 precision: plain Put / Get /
		// Delete never parse numbers, so the open finding F-FLOAT (about the
		// expression interpreter) does not apply as long as no expression runs
		bigNums := (s.Attrs[s.Hash] == "N" || s.Range != "" && s.Attrs[s.Range] == "N") && rapid.Bool().Draw(rt, "bigNumberKeys")
		if bigNums {
			g.useBigNumberKeys(rt)
		}
		w.pool[s.Table] = g.keys
		g.failClasses = []string{"index-key-type-put", "index-key-type-update", "wrong-typed-key", "missing-key-attr", "oversized-index-key", "malformed-update", "invalid-return-values"}
		var lastRefused *model.Op
		floodDone := false
		var flagOverwrite, flagReput, flagUpsert, flagDelAbsent bool
		touched := map[string]bool{}
		deleted := map[string]bool{}
		fail := func(f *failure) {
			if f != nil {
				failCase(rt, "C01", "history:C01", f, w.asCase())
			}
		}
		defer func() {
			nt := len(touched) >= 2 && (flagOverwrite || flagReput || flagUpsert || flagDelAbsent)
			st.Case(nt, w.Ops)
			st.Step(w.steps)
			if flagOverwrite {
				st.Class("history-with-overwrite")
			}
			if flagReput {
				st.Class("history-with-delete-then-reput")
			}
			if flagUpsert {
				st.Class("history-with-update-created-item")
			}
			if flagDelAbsent {
				st.Class("history-with-delete-of-absent-key")
			}
			if s.Range != "" {
				st.Class("schema-hash+range")
			} else {
				st.Class("schema-hash-only")
			}
			st.Class("keytype-" + s.Attrs[s.Hash])
			if bigNums {
				st.Class("number-keys-beyond-float64-precision")
			}
		}()
		_, _, f := w.do(model.Op{Kind: "CreateTable", Schema: &s})
		fail(f)
		rt.Repeat(map[string]func(*rapid.T){
			"put": func(rt *rapid.T) {
				it := g.item(rt)
				key := w.m.Tables[s.Table].KeyItem(it)
				ck := model.CanonItem(key)
				existed := stored(w.m, s.Table, key) != nil
				_, status, f := w.do(model.Op{Kind: "Put", Table: s.Table, Item: it})
				fail(f)
				if status == stepDone {
					touched[ck] = true
					if existed {
						flagOverwrite = true
					} else if deleted[ck] {
						flagReput = true
					}
				}
			},
			"update": func(rt *rapid.T) {
				if bigNums {
					return // no expressions on tables with numbers beyond float64 precision
				}
				op := normOp(g.updateOp(rt, w.m, 5))
				ck := model.CanonItem(op.Key)
				existed := stored(w.m, s.Table, op.Key) != nil
				res, status, f := w.do(op)
				fail(f)
				if status == stepDone && res.Err == "" {
					touched[ck] = true
					if !existed {
						flagUpsert = true
					}
				}
			},
			"manyUpdateTexts": func(rt *rapid.T) {
				// more distinct update texts on one table than any bounded memory of
				// parsed expressions holds, then the earliest texts once more with
				// another value: each must still do what it says
				if bigNums || floodDone || rapid.IntRange(0, 39).Draw(rt, "reallyManyTexts") != 21 {
					return
				}
				floodDone = true
				key := g.key(rt)
				n := rapid.SampledFrom([]int{65, 70, 130}).Draw(rt, "updateTexts")
				for round := 0; round < 2; round++ {
					last := n
					if round == 1 {
						last = 3
					}
					for i := 0; i < last; i++ {
						op := model.Op{Kind: "Update", Table: s.Table, Key: key, Update: fmt.Sprintf("SET zf%d = :v", i),
							Values: map[string]model.AV{":v": model.Str(fmt.Sprintf("r%d-%d", round, i))}}
						res, status, f := w.do(op)
						fail(f)
						if status == stepDone && res.Err == "" {
							touched[model.CanonItem(key)] = true
						}
					}
				}
				st.Class("history-with-many-update-texts")
			},
			"delete": func(rt *rapid.T) {
				key := g.key(rt)
				ck := model.CanonItem(key)
				existed := stored(w.m, s.Table, key) != nil
				_, status, f := w.do(model.Op{Kind: "Delete", Table: s.Table, Key: key, ReturnOld: rapid.Bool().Draw(rt, "returnOld")})
				fail(f)
				if status == stepDone {
					touched[ck] = true
					if existed {
						deleted[ck] = true
					} else {
						flagDelAbsent = true
					}
				}
			},
			"condWrite": func(rt *rapid.T) {
				// the same operations carrying a condition (C05 owns the verdict
				// of the condition; here the resulting map state matters)
				if bigNums {
					return
				}
				op := g.condWriteOp(rt, w.m, false)
				var key model.Item
				if op.Kind == "Put" {
					key = w.m.Tables[s.Table].KeyItem(op.Item)
				} else {
					key = op.Key
				}
				ck := model.CanonItem(key)
				existed := stored(w.m, s.Table, key) != nil
				res, status, f := w.do(op)
				fail(f)
				if status == stepDone && res.Err == "" {
					touched[ck] = true
					if op.Kind == "Update" && !existed {
						flagUpsert = true
					}
					if op.Kind == "Delete" {
						if existed {
							deleted[ck] = true
						} else {
							flagDelAbsent = true
						}
					}
				}
			},
			"get": func(rt *rapid.T) {
				_, _, f := w.do(model.Op{Kind: "Get", Table: s.Table, Key: g.key(rt)})
				fail(f)
			},
			"rejectedWrite": func(rt *rapid.T) {
				// a write that is refused (malformed key, wrongly typed index key) is
				// not a successful write: what GetItem returns must not change
				if rapid.IntRange(0, 2).Draw(rt, "reallyRejected") != 0 {
					return
				}
				op, class := g.failingOp(rt, w.m)
				if lastRefused != nil && rapid.IntRange(0, 2).Draw(rt, "sendRefusedAgain") == 1 {
					// the request refused a moment ago, once more: it must be refused again
					op, class = *lastRefused, "sent-again"
				}
				if op.Kind == "Get" || bigNums && op.Kind == "Update" {
					return
				}
				lastRefused = &op
				op.TrySpec = true
				_, status, f := w.do(op)
				fail(f)
				if status == stepRejected || status == stepDone {
					st.Class("refused-write-" + class)
				}
			},
			"": func(rt *rapid.T) {
				fail(w.maybeCheck())
			},
		})
		fail(w.check())
	})
}

package props

import (
	"testing"

	"pgregory.net/rapid"

	"verifharness/gen"
	"verifharness/model"
	"verifharness/stats"
)

// drawNumeral draws a numeral of any notation class (restricted to
// float64-round-trip-exact ones while F-FLOAT is open) and reports its class.
func drawNumeral(rt *rapid.T, label string) (string, int) {
	for i := 0; ; i++ {
		s, c := gen.NumeralClass(rt, gen.NumAll, label)
		if open("F-FLOAT") && !model.FloatExact(s) {
			if i > 30 {
				return "7", gen.NumSmallInt
			}
			continue
		}
		return s, c
	}
}

// sameValue re-renders a numeral in another notation with the same value.
func sameValue(rt *rapid.T, s string) string {
	d := model.MustDec(s)
	p := d.Plain()
	switch rapid.IntRange(0, 5).Draw(rt, "renotate") {
	case 0:
		return p
	case 1:
		if p[0] == '-' {
			return "-00" + p[1:]
		}
		return "00" + p
	case 2:
		if !containsDot(p) {
			return p + ".0"
		}
		return p + "00"
	case 3:
		return p + "e0"
	case 4:
		// shift the decimal point: x = (x*10) E-1
		if !containsDot(p) {
			return p + "0E-1"
		}
		return p + "E+0"
	}
	return s
}

func containsDot(s string) bool {
	for i := 0; i < len(s); i++ {
		if s[i] == '.' {
			return true
		}
	}
	return false
}

// neighbour returns a numeral close to s but of different value.
func neighbour(rt *rapid.T, s string) string {
	d := model.MustDec(s)
	for i := 0; i < 8; i++ {
		delta := rapid.SampledFrom([]string{"1", "-1", "0.5", "-0.25", "10", "0.001", "-100", "0.000000476837158203125", "-0.0000152587890625", "0.0000000004656612873077392578125"}).Draw(rt, "delta")
		nd := d.Add(model.MustDec(delta))
		n := nd.Plain()
		if nd.InRange() && (!open("F-FLOAT") || model.FloatExact(n)) {
			return n
		}
	}
	if d.Cmp(model.MustDec("3")) == 0 {
		return "4"
	}
	return "3"
}

const ruleC12 = "rapid: numerals of every notation class (small and large integers, leading zeros, trailing fractional zeros, binary and decimal fractions, exponent forms of both signs, negative zero, 17-38 significant digits, magnitude extremes - restricted to float64-round-trip-exact values while the open finding F-FLOAT applies) in attribute, set-member, comparison-operand and arithmetic-operand position: (a) conditions = <> < <= > >= BETWEEN IN contains(NS) between an attribute and a value that is the same number in another notation, a neighbour, or an unrelated numeral, against the exact-decimal reference evaluator; (b) SET a = x + y / x - y / a + :v and ADD with generated numerals against exact decimal arithmetic, comparing the entire item so that every untargeted number keeps its value; (c) histories on tables with number-typed hash and sort keys, the key pool containing close neighbours (differences down to 2^-31) of its own members (Put / Get / Update / Query in both directions) against the tuple-keyed model. Non-trivial = case involving a numeral not in canonical plain form, or a value that is not exactly a float64; distinct = hash of the case."

// TestC12 decides property C12.
func TestC12(t *testing.T) {
	st := stats.For("C12")
	st.SetRule(ruleC12)
	rapid.Check(t, func(rt *rapid.T) {
		mode := rapid.SampledFrom([]string{"condition", "condition", "arithmetic", "arithmetic", "keys"}).Draw(rt, "mode")
		if mode == "keys" {
			c12Keys(rt, st)
			return
		}
		a, ca := drawNumeral(rt, "a")
		var b string
		rel := rapid.SampledFrom([]string{"same-value", "same-value", "neighbour", "unrelated"}).Draw(rt, "relation")
		switch rel {
		case "same-value":
			b = sameValue(rt, a)
		case "neighbour":
			b = neighbour(rt, a)
		default:
			b, _ = drawNumeral(rt, "b")
		}
		other, _ := drawNumeral(rt, "other")
		nontrivial := model.MustDec(a).Plain() != a || model.MustDec(b).Plain() != b || !model.FloatIs(a) || !model.FloatIs(b)
		nsMember := sameValue(rt, a)
		item := model.Item{"n": model.Num(a), "keep": model.Num(other), "ns": model.NumSet(nsMember, neighbour(rt, a)),
			"l": model.List(model.Num(other), model.Str("x")), "m": model.Map(map[string]model.AV{"k": model.Num(other)})}
		if open("F-FLOAT") {
			// number sets are keyed by float64 in the implementation
			if !model.FloatExact(item["ns"].SS[1]) {
				item["ns"] = model.NumSet(nsMember)
			}
		}
		st.Class("relation-" + rel)
		st.Class("class-" + numClassName(ca))
		if mode == "condition" {
			vals := map[string]model.AV{":v": model.Num(b), ":w": model.Num(neighbour(rt, b))}
			expr := rapid.SampledFrom([]string{"n = :v", "n <> :v", "n < :v", "n <= :v", "n > :v", "n >= :v", ":v = n", ":v < n",
				"n BETWEEN :v AND :w", "n BETWEEN :w AND :v", "n IN (:w, :v)", "contains(ns, :v)", "ns = :s", "l[0] = :v OR m.k = :v", "NOT n = :v"}).Draw(rt, "expr")
			if expr == "ns = :s" {
				vals[":s"] = model.NumSet(sameValue(rt, item["ns"].SS[0]))
				if len(item["ns"].SS) > 1 {
					vals[":s"] = model.NumSet(sameValue(rt, item["ns"].SS[1]), sameValue(rt, item["ns"].SS[0]))
				}
			}
			ec := exprCase{Expr: expr, Item: item, Values: vals, API: rapid.IntRange(0, 9).Draw(rt, "api") == 0}
			_, ec.Values = pruneUnused(nil, ec.Values, ec.Expr)
			pending("C12", "c06", ec)
			info := &c06Info{}
			f := runC06(ec, info)
			if len(info.guarded) > 0 {
				for _, id := range info.guarded {
					st.Exclude(id)
				}
				return
			}
			if !info.want.Single() {
				st.WeakCase()
			}
			st.Case(nontrivial, ec)
			st.Class("position-comparison-operand")
			if f != nil {
				failCase(rt, "C12", "c06", f, ec)
			}
			return
		}
		vals := map[string]model.AV{":v": model.Num(b), ":w": model.Num(other)}
		expr := rapid.SampledFrom([]string{"SET n = n + :v", "SET n = n - :v", "SET r = :v + :w", "SET r = :w - :v", "ADD n :v", "ADD fresh :v",
			"SET m.k = m.k + :v", "SET r = if_not_exists(zz, :v) + n", "ADD ns :s", "DELETE ns :s", "SET r = :v",
			// a copy taken before the number it was copied from changes in the same update
			"SET r = n ADD n :v", "SET r = if_not_exists(zz, n) ADD n :v", "SET r = m ADD m.k :v", "SET r = keep, keep = keep + :v"}).Draw(rt, "expr")
		if expr == "ADD ns :s" || expr == "DELETE ns :s" {
			vals[":s"] = model.NumSet(sameValue(rt, item["ns"].SS[0]))
		}
		ec := exprCase{Expr: expr, Item: item, Values: vals, API: rapid.IntRange(0, 9).Draw(rt, "api") == 0}
		ec.Debug = ec.API && rapid.Bool().Draw(rt, "apiDebug")
		_, ec.Values = pruneUnused(nil, ec.Values, ec.Expr)
		pending("C12", "c07", ec)
		info := &c07Info{}
		f := runC07(ec, info)
		if len(info.guarded) > 0 {
			for _, id := range info.guarded {
				st.Exclude(id)
			}
			return
		}
		if info.res.Weak {
			st.WeakCase()
			return
		}
		st.Case(nontrivial, ec)
		st.Class("position-arithmetic-operand")
		if f != nil {
			failCase(rt, "C12", "c07", f, ec)
		}
	})
}

func numClassName(c int) string {
	switch c {
	case gen.NumSmallInt:
		return "small-int"
	case gen.NumInt:
		return "int"
	case gen.NumLeadingZeros:
		return "leading-zeros"
	case gen.NumTrailingZeros:
		return "trailing-zeros"
	case gen.NumBinFraction:
		return "binary-fraction"
	case gen.NumDecFraction:
		return "decimal-fraction"
	case gen.NumExponent:
		return "exponent"
	case gen.NumNegZero:
		return "negative-zero"
	case gen.NumBig:
		return "17-38-digits"
	}
	return "extreme"
}

// c12Keys: a short history on a table with number-typed keys.
func c12Keys(rt *rapid.T, st *stats.Collector) {
	w := newWorld("C12", worldCfg{V1: true, V2: true, WhiteBox: true, GetKeys: true})
	s := model.Schema{Table: "tbl", Hash: "pk", Range: "sk", Attrs: map[string]string{"pk": "N", "sk": rapid.SampledFrom([]string{"N", "N", "B"}).Draw(rt, "skType")}, Billing: "PAY_PER_REQUEST"}
	o := avOpts(1, true)
	g := newTgen(rt, s, o, rapid.IntRange(3, 6).Draw(rt, "poolSize"))
	// twins of pool keys: one number part replaced by a close neighbour
	// (differences down to 2^-31), the other part kept
	seenKey := map[string]bool{}
	for _, k := range g.keys {
		seenKey[model.CanonItem(k)] = true
	}
	for i, nt := 0, rapid.IntRange(0, 3).Draw(rt, "keyTwins"); i < nt; i++ {
		k := g.key(rt)
		var numAttrs []string
		for _, a := range []string{"pk", "sk"} {
			if k[a].T == "N" {
				numAttrs = append(numAttrs, a)
			}
		}
		a := rapid.SampledFrom(numAttrs).Draw(rt, "twinAttr")
		k[a] = model.Num(neighbour(rt, k[a].S))
		if c := model.CanonItem(k); !seenKey[c] {
			seenKey[c] = true
			g.keys = append(g.keys, k)
		}
	}
	w.pool[s.Table] = g.keys
	fail := func(f *failure) {
		if f != nil {
			failCase(rt, "C12", "history:C12", f, w.asCase())
		}
	}
	nonCanon := false
	for _, k := range g.keys {
		for _, v := range k {
			if v.T == "N" && model.MustDec(v.S).Plain() != v.S {
				nonCanon = true
			}
		}
	}
	defer func() {
		st.Case(nonCanon || len(w.Ops) > 3, w.Ops)
		st.Class("position-key")
		st.Step(w.steps)
	}()
	_, _, f := w.do(model.Op{Kind: "CreateTable", Schema: &s})
	fail(f)
	n := rapid.IntRange(2, 10).Draw(rt, "steps")
	for i := 0; i < n; i++ {
		switch rapid.IntRange(0, 4).Draw(rt, "keyOp") {
		case 0, 1:
			_, _, f = w.do(model.Op{Kind: "Put", Table: s.Table, Item: g.item(rt)})
		case 2:
			k := g.key(rt)
			// address the same key through another notation of its numerals
			if !open("F-NUMKEYTEXT") {
				for a, v := range k {
					if v.T == "N" {
						k[a] = model.Num(sameValue(rt, v.S))
					}
				}
			}
			_, _, f = w.do(model.Op{Kind: "Get", Table: s.Table, Key: k})
		case 3:
			_, _, f = w.do(normOp(g.updateOp(rt, w.m, 0)))
		default:
			_, _, f = w.do(g.readOp(rt, w.m, 0))
		}
		fail(f)
		fail(w.check())
	}
}

func init() { replayers["history:C12"] = replayHistory("C12") }

package props

import (
	"testing"

	"pgregory.net/rapid"

	"verifharness/gen"
	"verifharness/model"
	"verifharness/stats"
)

// readOp draws a Query or Scan against the table or one of its indexes in
// the current model state.
func (g *tgen) readOp(rt *rapid.T, db *model.DB, filterPct int) model.Op {
	t := db.Tables[g.s.Table]
	op := model.Op{Table: g.s.Table}
	hash, rng := t.Schema.Hash, t.Schema.Range
	if len(t.Schema.Indexes) > 0 && rapid.IntRange(0, 9).Draw(rt, "onIndex") < 6 {
		ix := rapid.SampledFrom(t.Schema.Indexes).Draw(rt, "readIndex")
		op.Index = ix.Name
		hash, rng = ix.Hash, ix.Range
	}
	view := t.View(op.Index)
	var rep model.Item
	if len(view) > 0 {
		rep = rapid.SampledFrom(view).Draw(rt, "repItem")
	}
	c := gen.NewExprCtx(rep, g.o).Style(rt)
	c.IllTyped = 5
	if rapid.IntRange(0, 9).Draw(rt, "isQuery") < 7 {
		op.Kind = "Query"
		var hv model.AV
		if rep != nil && rapid.IntRange(0, 9).Draw(rt, "hashHit") < 8 {
			hv = rep[hash].Clone()
		} else {
			hv = drawKeyValue(rt, t.Schema.Attrs[hash], g.o, "hashMiss")
		}
		kc := model.Expr(model.Cmp{Op: "=", L: model.Path{Elems: []model.PathElem{{Name: c.NameTok(rt, hash)}}}, R: c.Val(hv)})
		if rapid.IntRange(0, 5).Draw(rt, "hashFlip") == 0 {
			x := kc.(model.Cmp)
			kc = model.Cmp{Op: "=", L: x.R, R: x.L}
		}
		if rng != "" && rapid.IntRange(0, 9).Draw(rt, "sortCond") < 7 {
			rp := model.Path{Elems: []model.PathElem{{Name: c.NameTok(rt, rng)}}}
			ty := t.Schema.Attrs[rng]
			operand := func(label string) model.AV {
				if rep != nil && rapid.IntRange(0, 9).Draw(rt, label+"Hit") < 7 {
					other := rapid.SampledFrom(view).Draw(rt, label+"Item")
					if v, ok := other[rng]; ok && v.T == ty {
						return v.Clone()
					}
				}
				return drawKeyValue(rt, ty, g.o, label)
			}
			kinds := []string{"=", "<", "<=", ">", ">=", "BETWEEN"}
			if ty == "S" || ty == "B" {
				kinds = append(kinds, "begins_with", "begins_with")
			}
			var sc model.Expr
			switch k := rapid.SampledFrom(kinds).Draw(rt, "sortKind"); k {
			case "BETWEEN":
				a, b := operand("lo"), operand("hi")
				if cmp, _ := model.CompareScalar(a, b); cmp > 0 {
					a, b = b, a
				}
				sc = model.Between{V: rp, Lo: c.Val(a), Hi: c.Val(b)}
			case "begins_with":
				v := operand("prefix")
				if v.T == "S" {
					n := rapid.IntRange(0, len(v.S)).Draw(rt, "prefixLen")
					for n > 0 && n < len(v.S) && v.S[n]&0xC0 == 0x80 {
						n--
					}
					v = model.Str(v.S[:n])
				} else {
					n := rapid.IntRange(1, len(v.B)).Draw(rt, "prefixLen")
					v = model.Bin(v.B[:n])
				}
				sc = model.Func{Name: "begins_with", Args: []model.Expr{rp, c.Val(v)}}
			default:
				sc = model.Cmp{Op: k, L: rp, R: c.Val(operand("sortVal"))}
			}
			if rapid.IntRange(0, 5).Draw(rt, "sortFirst") == 0 {
				kc = model.Logic{Op: "AND", L: sc, R: kc}
			} else {
				kc = model.Logic{Op: "AND", L: kc, R: sc}
			}
		}
		op.KeyCond = model.Render(kc)
		op.Backward = rapid.Bool().Draw(rt, "backward")
	} else {
		op.Kind = "Scan"
	}
	if rapid.IntRange(0, 99).Draw(rt, "withFilter") < filterPct {
		c.NoNested = rapid.Bool().Draw(rt, "flatFilter")
		op.Filter = model.Render(c.Cond(rt, 2))
	}
	op.Names, op.Values = c.Names, c.Values
	return normOp(op)
}

const ruleC02 = "rapid state machine: generated schema (hash+range, S/N/B keys, 0-2 global/local indexes) populated by a write history (Put/Update/Delete over a key pool with 1-3 partitions and prefix-sharing keys), with UpdateTable index creation on the populated table, interleaved with Query (hash equality alone or with = < <= > >= BETWEEN begins_with on the sort key, optional generated filter, both directions) and Scan (optional filter) on the table and on every index, on both SDK clients; result compared with the reference model as multiset (none missing, none extra, each once), Count == len(Items), and order validity by the queried schema's sort key. Non-trivial = read returning >= 2 items while at least one stored item is excluded; distinct = distinct hash of (state, read)."

// TestC02 decides property C02.
func TestC02(t *testing.T) {
	st := stats.For("C02")
	st.SetRule(ruleC02)
	rapid.Check(t, func(rt *rapid.T) {
		w := newWorld("C02", worldCfg{V1: true, V2: true})
		s := drawSchema(rt, "tbl", schemaCfg{KeyTypes: []string{"S", "S", "S", "N", "B"}, MaxIndexes: 2, ForceRange: 1})
		o := avOpts(2, true)
		g := newTgen(rt, s, o, rapid.IntRange(4, 10).Draw(rt, "poolSize"))
		fail := func(f *failure) {
			if f != nil {
				failCase(rt, "C02", "history:C02", f, w.asCase())
			}
		}
		reads, lateIdx := 0, 0
		defer func() {
			st.Step(w.steps)
			if reads == 0 {
				st.Case(false, nil)
			}
		}()
		_, _, f := w.do(model.Op{Kind: "CreateTable", Schema: &s})
		fail(f)
		rt.Repeat(map[string]func(*rapid.T){
			"put": func(rt *rapid.T) {
				_, _, f := w.do(model.Op{Kind: "Put", Table: s.Table, Item: g.item(rt)})
				fail(f)
			},
			"put2": func(rt *rapid.T) {
				_, _, f := w.do(model.Op{Kind: "Put", Table: s.Table, Item: g.item(rt)})
				fail(f)
			},
			"update": func(rt *rapid.T) {
				_, _, f := w.do(normOp(g.updateOp(rt, w.m, 0)))
				fail(f)
			},
			"delete": func(rt *rapid.T) {
				_, _, f := w.do(model.Op{Kind: "Delete", Table: s.Table, Key: g.key(rt)})
				fail(f)
			},
			"addIndex": func(rt *rapid.T) {
				// an index created on the populated table is read like any other
				if lateIdx >= 2 || rapid.IntRange(0, 2).Draw(rt, "reallyAddIndex") != 0 {
					return
				}
				op, ok := g.lateIndexOp(rt, w.m, lateIdx+1)
				if !ok {
					return
				}
				lateIdx++
				_, status, f := w.do(op)
				fail(f)
				g.adoptLateIndex(rt, w.m, op)
				if status == stepDone {
					st.Class("index-added-to-populated-table")
				}
			},
			"read": func(rt *rapid.T) {
				op := g.readOp(rt, w.m, 50)
				res, status, f := w.do(op)
				fail(f)
				if status != stepDone || res.Err != "" {
					return
				}
				reads++
				total := len(w.m.Tables[s.Table].View(op.Index))
				nt := len(res.Items) >= 2 && len(res.Items) < total
				st.Case(nt, []interface{}{model.CanonItems(w.m.Tables[s.Table].View("")), op})
				if op.Index != "" {
					st.Class("read-on-index")
				}
				if op.Backward {
					st.Class("read-descending")
				}
				if op.Filter != "" {
					st.Class("read-with-filter")
				}
				st.Class("read-" + op.Kind)
				if res.OrderBy != "" {
					ties := false
					for i := 1; i < len(res.Items); i++ {
						if model.Equal(res.Items[i][res.OrderBy], res.Items[i-1][res.OrderBy]) {
							ties = true
						}
					}
					if ties {
						st.Class("read-with-equal-sort-keys")
					}
				}
			},
			"read2": func(rt *rapid.T) {
				op := g.readOp(rt, w.m, 30)
				res, status, f := w.do(op)
				fail(f)
				if status == stepDone && res.Err == "" {
					reads++
					total := len(w.m.Tables[s.Table].View(op.Index))
					st.Case(len(res.Items) >= 2 && len(res.Items) < total, []interface{}{model.CanonItems(w.m.Tables[s.Table].View("")), op})
				}
			},
		})
	})
}

// indexTransitions classifies what a step did to index membership.
func indexTransitions(before, after *model.DB, table string) map[string]bool {
	out := map[string]bool{}
	bt, at := before.Tables[table], after.Tables[table]
	if bt == nil || at == nil {
		return out
	}
	for i := range at.Schema.Indexes {
		ix := &at.Schema.Indexes[i]
		if bt.Schema.FindIndex(ix.Name) == nil {
			if len(at.View(ix.Name)) > 0 {
				out["index-created-after-items"] = true
			}
			continue
		}
		keyOf := func(it model.Item) string { return model.Canon(it[ix.Hash]) + "|" + model.Canon(it[ix.Range]) }
		for ck, bi := range bt.Items {
			ai, still := at.Items[ck]
			bin := bt.InIndex(ix, bi)
			switch {
			case !still && bin:
				out["indexed-item-deleted"] = true
			case still && bin && !at.InIndex(ix, ai):
				out["item-left-index"] = true
			case still && !bin && at.InIndex(ix, ai):
				out["item-entered-index-late"] = true
			case still && bin && at.InIndex(ix, ai) && keyOf(bi) != keyOf(ai):
				out["index-key-changed"] = true
			}
		}
	}
	return out
}

const ruleC03 = "rapid state machine: generated schema with 1-3 global/local secondary indexes (hash-only and hash+range, sharing attributes with each other and with the table key), then Put (fresh, overwrite keeping / changing / dropping the index key), UpdateItem (SET / REMOVE of index key attributes), DeleteItem, ClearTable, writes refused for a wrongly typed index key (alone and inside batches), UpdateTable index creation on a populated table (direct and through the AddIndex helper) and index deletion, over a pool of 3-5 keys and 2-3 index-key values; after every step, on both SDK clients: Scan of every index, Query of every index for every index hash value in use (both directions), DescribeTable per-index ItemCount, and the white-box invariant multiset(refs) == sortedKeys, refs subset of Data. Non-trivial = some index held >= 2 items at some point and the history contains a transition among {entered late, key changed, left, indexed item deleted, index created after items}; distinct = distinct hash of the operation list."

// TestC03 decides property C03.
func TestC03(t *testing.T) {
	st := stats.For("C03")
	st.SetRule(ruleC03)
	rapid.Check(t, func(rt *rapid.T) {
		w := newWorld("C03", worldCfg{V1: true, V2: true, WhiteBox: true, IndexReads: true})
		w.drawCheckPeriod(rt)
		s := drawSchema(rt, "tbl", schemaCfg{KeyTypes: []string{"S", "S", "S", "N"}, MaxIndexes: 3, MinIndexes: 1})
		o := avOpts(2, true)
		g := newTgen(rt, s, o, rapid.IntRange(3, 5).Draw(rt, "poolSize"))
		g.maxAttrs = 2
		// few attribute names, of any type: an index created later on "a" or
		// "b" meets items that lack it, hold it with the right type, or with a
		// wrong one
		g.attrNames = []string{"a", "b", "c"}
		g.failClasses = []string{"index-key-type-put", "index-key-type-update", "batch-index-key-type"}
		fail := func(f *failure) {
			if f != nil {
				failCase(rt, "C03", "history:C03", f, w.asCase())
			}
		}
		trans := map[string]bool{}
		maxInIndex := 0
		lateIdx := 0
		defer func() {
			st.Case(maxInIndex >= 2 && len(trans) > 0, w.Ops)
			st.Step(w.steps)
			for k := range trans {
				st.Class("history-with-" + k)
			}
		}()
		step := func(op model.Op) {
			before := w.m
			_, status, f := w.do(op)
			fail(f)
			if status == stepDone {
				for k := range indexTransitions(before, w.m, s.Table) {
					trans[k] = true
				}
				if t := w.m.Tables[s.Table]; t != nil {
					for _, ix := range t.Schema.Indexes {
						if n := len(t.View(ix.Name)); n > maxInIndex {
							maxInIndex = n
						}
					}
				}
			}
		}
		step(model.Op{Kind: "CreateTable", Schema: &s})
		rt.Repeat(map[string]func(*rapid.T){
			"put":  func(rt *rapid.T) { step(model.Op{Kind: "Put", Table: s.Table, Item: g.item(rt)}) },
			"put2": func(rt *rapid.T) { step(model.Op{Kind: "Put", Table: s.Table, Item: g.item(rt)}) },
			"update": func(rt *rapid.T) {
				step(normOp(g.updateOp(rt, w.m, 0)))
			},
			"delete": func(rt *rapid.T) { step(model.Op{Kind: "Delete", Table: s.Table, Key: g.key(rt)}) },
			"clear": func(rt *rapid.T) {
				if rapid.IntRange(0, 3).Draw(rt, "reallyClear") != 0 {
					rt.Skip("clear rarely")
				}
				step(model.Op{Kind: "ClearTable", Table: s.Table})
			},
			"clearAndReload": func(rt *rapid.T) {
				// a fixture reload: clear, then put as many items as there were,
				// with no read in between
				if rapid.IntRange(0, 4).Draw(rt, "reallyReload") != 0 {
					rt.Skip("reload rarely")
				}
				n := len(w.m.Tables[s.Table].Items)
				var items []model.Item
				for i := 0; i < n+rapid.IntRange(0, 1).Draw(rt, "reloadExtra"); i++ {
					items = append(items, g.item(rt))
				}
				step(model.Op{Kind: "ClearTable", Table: s.Table})
				for _, it := range items {
					step(model.Op{Kind: "Put", Table: s.Table, Item: it})
				}
			},
			"addIndex": func(rt *rapid.T) {
				if lateIdx >= 2 {
					rt.Skip("enough late indexes")
				}
				op, ok := g.lateIndexOp(rt, w.m, lateIdx+1)
				if !ok {
					rt.Skip("the AddIndex helper supplies no throughput")
				}
				lateIdx++
				step(op)
				g.adoptLateIndex(rt, w.m, op)
			},
			"refusedWrite": func(rt *rapid.T) {
				// a write refused for an index key of the wrong type or size leaves every index as it was
				if rapid.IntRange(0, 2).Draw(rt, "reallyRefused") != 1 {
					return
				}
				op, _ := g.failingOp(rt, w.m)
				op.TrySpec = true
				step(op)
			},
			"delIndex": func(rt *rapid.T) {
				t := w.m.Tables[s.Table]
				if len(t.Schema.Indexes) < 2 || rapid.IntRange(0, 2).Draw(rt, "reallyDel") != 0 {
					rt.Skip("keep indexes")
				}
				ix := rapid.SampledFrom(t.Schema.Indexes).Draw(rt, "delIx")
				if !ix.Global {
					rt.Skip("only global indexes can be deleted")
				}
				step(model.Op{Kind: "DeleteIndex", Table: s.Table, Index: ix.Name})
			},
			"": func(rt *rapid.T) { fail(w.maybeCheck()) },
		})
		fail(w.check())
	})
}

#!/bin/bash
# usage: tools/round.sh <round-tag e.g. r8> <out-root e.g. /tmp/seed-out> [parallelism]
# Runs tools/seed.sh for every complete, not yet stored sub-agent output <out-root>/<Cxx>/<n>/ as seed <Cxx>-<round>-<n>.
round="$1"; root="$2"; par="${3:-3}"
cd /verif
todo=()
for d in "$root"/C*/[0-9]; do
  p=$(basename "$(dirname "$d")"); n=$(basename "$d"); id="$p-$round-$n"
  [ -f "$d/patch.diff" ] && [ -f "$d/demo_test.go" ] && [ -f "$d/README.md" ] || continue
  [ -d "seeded/$id" ] && continue
  [ -f "$root/$id.log" ] && continue
  todo+=("$d|$id|$p")
done
printf '%s\n' "${todo[@]}" | grep . | xargs -P "$par" -I{} bash -c 'IFS="|" read d id p <<< "{}"; flags=""; grep -qi "race detector\|-race\|data race" "$d/README.md" && flags="-race"; DEMO_FLAGS=$flags tools/seed.sh "$d" "$id" "$p" > "'"$root"'/$id.log" 2>&1; tail -1 "'"$root"'/$id.log"'

#!/bin/bash
# usage: tools/hunt.sh <TestName> <checks> <seed>   - run one property directly and print the shrunk replay
export GOFLAGS=-mod=mod GOPROXY=off GOSUMDB=off GOTOOLCHAIN=local VERIF_ROOT=/verif
t="$1"; n="${2:-3000}"; seed="${3:-5}"; prop="${t#Test}"
cd /verif/harness/props && rm -f /verif/replays/$prop.json
go test -tags verif -count=1 -run "^$t\$" -rapid.checks=$n -rapid.seed=$seed -rapid.nofailfile -rapid.shrinktime=40s -timeout 900s . 2>&1 | grep -v "rapid\] draw" | tail -4 | cut -c1-1200
if [ -f /verif/replays/$prop.json ]; then python3 - <<PY
import json
d=json.load(open('/verif/replays/$prop.json')); print(d['class'],'|',d['detail'][:600])
c=d['case']
ops=c['ops'] if isinstance(c,dict) and 'ops' in c else None
if ops is not None:
    for op in ops: print('   ', json.dumps(op)[:600])
else: print(json.dumps(c)[:2500])
PY
fi

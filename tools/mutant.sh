#!/bin/bash
# usage: tools/mutant.sh <patch-file> <property> [<property>...]
# Applies the patch to a scratch copy of /repo, confirms that it builds and that
# the repository's own suite still passes, runs the named checks (quick tier)
# against the copy and reports which ones raise a VIOLATION. Cleans up.
export GOFLAGS=-mod=mod GOPROXY=off GOSUMDB=off GOTOOLCHAIN=local
patch="$(realpath "$1")"; shift
id="$(basename "$patch" .patch)"; id="${id%.diff}"
scratch="/tmp/mut-$id-$$"
out="/tmp/mut-$id-$$-out"
rm -rf "$scratch" "$out"; mkdir -p "$scratch" "$out"
rsync -a --exclude .git /repo/ "$scratch/"
if ! (cd "$scratch" && patch -p1 -s --no-backup-if-mismatch < "$patch" >/dev/null 2>&1); then
  echo "MUTANT $id: patch does not apply"; rm -rf "$scratch" "$out"; exit 3
fi
if ! (cd "$scratch" && go build ./... 2>/dev/null); then
  echo "MUTANT $id: does not build"; rm -rf "$scratch" "$out"; exit 3
fi
if [ -z "$SKIP_SUITE" ]; then
  suite=$(cd "$scratch" && go test -vet=off -count=1 -timeout 120s ./... 2>&1 | grep -c "^--- FAIL\|^FAIL\|panic:")
  if [ "$suite" != "0" ]; then echo "MUTANT $id: killed by the existing suite"; rm -rf "$scratch" "$out"; exit 4; fi
fi
sed "s|=> /repo|=> $scratch|" /verif/harness/go.mod > "$out/alt.mod"
cp /verif/harness/go.sum "$out/alt.sum"
res=""
for p in "$@"; do
  VERIF_MODFILE="$out/alt.mod" VERIF_BIN_TAG="-mut$$" VERIF_OUT="$out" /verif/check "$p" --tier "${TIER:-quick}" > "$out/$p.log" 2>&1
  rc=$?
  if [ $rc = 1 ]; then res="$res $p:CAUGHT"; grep "shard .*detail\|REPLAY-FAIL\|fatal error\|DATA RACE" "$out/$p.log" | head -2 | cut -c1-260
  elif [ $rc = 0 ]; then res="$res $p:missed"
  else res="$res $p:inconclusive"; tail -5 "$out/$p.log"; fi
done
echo "MUTANT $id:$res"
rm -rf "$scratch" "$out" /verif/.work/props-mut$$.test /verif/.work/props-race-mut$$.test /verif/.work/run-mut$$

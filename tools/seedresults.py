#!/usr/bin/env python3
"""Rebuild /verif/seeded/RESULTS.md from the meta.json files."""
import json, glob, os
rows = []
for m in sorted(glob.glob('/verif/seeded/*/meta.json')):
    d = json.load(open(m))
    readme = os.path.join(os.path.dirname(m), 'README.md')
    first = ''
    if os.path.exists(readme):
        for line in open(readme):
            line = line.strip()
            if line and not line.startswith('#'):
                first = line[:220]
                break
    rows.append((d['id'], d['breaks_property'], d.get('checks', ''), d.get('note', ''), first))
out = ["# Independently seeded breaking changes", "",
       "Each change was produced by a sub-agent that saw only the text of one property and a scratch worktree of /repo.",
       "`tools/seed.sh` re-verified it (patch applies, builds, repository suite green, demonstration passes on the clean",
       "tree and fails with the change) and ran the listed checks (quick tier, VERIF_SEED=1) against a patched scratch copy.",
       "", "| seed | property | checks (quick tier) | note | what it is (first line of the author's README) |", "|---|---|---|---|---|"]
for r in rows:
    out.append("| %s | %s | %s | %s | %s |" % tuple(x.replace('|', '/') for x in r))
caught = sum(1 for r in rows if 'CAUGHT' in r[2])
out += ["", "%d of %d seeded changes are caught by at least one quick check." % (caught, len(rows)), ""]
extra = '/verif/seeded/NOTES.md'
if os.path.exists(extra):
    out.append(open(extra).read())
open('/verif/seeded/RESULTS.md', 'w').write("\n".join(out) + "\n")
print("\n".join(out[-4:]))

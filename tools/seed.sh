#!/bin/bash
# usage: tools/seed.sh <src-dir with patch.diff demo_test.go README.md> <seed-id> <property> [<more properties to run>...]
# DEMO_FLAGS=-race runs the demonstration under the race detector (for changes whose only symptom is a data race).
# Verifies an independently produced breaking change (applies, builds, repository suite green,
# demonstration fails with it and passes without), runs the named checks against it and stores
# it under /verif/seeded/<seed-id>/ with meta.json.
export GOFLAGS=-mod=mod GOPROXY=off GOSUMDB=off GOTOOLCHAIN=local
src="$(realpath "$1")"; id="$2"; shift 2
prop="$1"
scratch="/tmp/seedchk-$id-$$"; rm -rf "$scratch"; mkdir -p "$scratch"
rsync -a --exclude .git /repo/ "$scratch/"
dir=$(head -3 "$src/demo_test.go" | grep -o 'dir: *[a-zA-Z0-9/_.-]*' | head -1 | sed 's/dir: *//')
[ -z "$dir" ] && dir="aws-v2/client"
pkg=$(grep -m1 '^package ' "$src/demo_test.go" | awk '{print $2}')
cp "$src/demo_test.go" "$scratch/$dir/zz_seeded_demo_test.go"
clean=$(cd "$scratch" && go test $DEMO_FLAGS -vet=off -count=1 -timeout 300s ./$dir/ 2>&1 | tail -1)
if ! (cd "$scratch" && patch -p1 -s --no-backup-if-mismatch < "$src/patch.diff" >/dev/null 2>&1); then echo "SEED $id: patch does not apply"; rm -rf "$scratch"; exit 3; fi
if ! (cd "$scratch" && go build ./... 2>/dev/null); then echo "SEED $id: does not build"; rm -rf "$scratch"; exit 3; fi
broken=$(cd "$scratch" && go test $DEMO_FLAGS -vet=off -count=1 -timeout 300s ./$dir/ 2>&1 | tail -1)
rm "$scratch/$dir/zz_seeded_demo_test.go"
suite=$(cd "$scratch" && go test -vet=off -count=1 -timeout 120s ./... 2>&1 | grep -c "^--- FAIL\|^FAIL\|panic:")
rm -rf "$scratch"
echo "SEED $id: demo on clean tree: $clean | demo with change: $broken | suite failures with change: $suite"
case "$clean" in ok*) ;; *) echo "SEED $id: REJECTED (demo does not pass on the clean tree)"; exit 4;; esac
case "$broken" in ok*) echo "SEED $id: REJECTED (demo does not fail with the change)"; exit 4;; esac
[ "$suite" != "0" ] && { echo "SEED $id: REJECTED (killed by the existing suite)"; exit 4; }
res=$(SKIP_SUITE=1 /verif/tools/mutant.sh "$src/patch.diff" "$@" 2>&1)
echo "$res" | tail -4
verdict=$(echo "$res" | grep "^MUTANT" | sed 's/^MUTANT [^:]*: *//')
mkdir -p "/verif/seeded/$id"
cp "$src/patch.diff" "/verif/seeded/$id/patch.diff"
cp "$src/demo_test.go" "/verif/seeded/$id/demo_test.go"
cp "$src/README.md" "/verif/seeded/$id/README.md" 2>/dev/null
python3 - "$id" "$prop" "$dir" "$verdict" "$clean" "$broken" <<'PY'
import json,sys,os
id,prop,d,verdict,clean,broken=sys.argv[1:7]
readme=open('/verif/seeded/%s/README.md'%id).read() if os.path.exists('/verif/seeded/%s/README.md'%id) else ''
meta={"id":id,"breaks_property":prop,"demo_package_dir":d,
 "needs_to_manifest":"see README.md (written by the sub-agent that produced the change)",
 "verified":{"patch_applies_to":"/repo HEAD at verification time","builds":True,"repository_suite_with_change":"green",
   "demo_on_clean_tree":clean,"demo_with_change":broken},
 "ran":"tools/seed.sh: demo on clean and on patched scratch copy, repository suite on patched copy, then tools/mutant.sh patch <checks> (quick tier, VERIF_SEED=1)",
 "checks":verdict}
json.dump(meta,open('/verif/seeded/%s/meta.json'%id,'w'),indent=1)
PY
echo "SEED $id: $verdict"

#!/bin/bash
# usage: tools/reseed.sh <seed-id>...   (default: every directory under /verif/seeded)
# Re-runs the checks recorded for each seeded change against a patched scratch copy of the
# current /repo and rewrites the "checks" field of its meta.json ("first_pass" keeps the
# verdict of the first run, before any strengthening). Re-run are the check of the property the
# change was seeded under and the checks that caught it last time; a neighbouring check that
# missed it before keeps its "missed" verdict without being run again.
cd /verif
ids="$@"; [ -z "$ids" ] && ids=$(ls seeded | grep -v '\.md$')
for id in $ids; do
  d=seeded/$id
  props=$(python3 - "$d/meta.json" <<'PY'
import json,sys,re
m=json.load(open(sys.argv[1]))
ps=[m['breaks_property']]+re.findall(r'(C\d\d):CAUGHT', m.get('checks',''))
out=[]
for p in ps:
    if p not in out: out.append(p)
print(' '.join(out))
PY
)
  res=$(SKIP_SUITE=1 tools/mutant.sh $d/patch.diff $props 2>&1 | grep "^MUTANT" | sed 's/^MUTANT [^:]*: *//')
  python3 - "$d/meta.json" "$res" <<'PY'
import json,sys
p,res=sys.argv[1:3]
m=json.load(open(p))
import re
m.setdefault('first_pass', m.get('checks',''))
ran=set(re.findall(r'(C\d\d):', res))
kept=[v for v in m.get('checks','').split() if v.split(':')[0] not in ran and v.endswith(':missed')]
m['checks']=' '.join([res]+kept)
json.dump(m,open(p,'w'),indent=1)
PY
  echo "$id: $res"
done

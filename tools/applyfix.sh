#!/bin/bash
# usage: tools/applyfix.sh <patch-file> <finding-id> [replay-file-demonstrating-the-violation]
# Applies one draft repair to /repo as a "fix:" commit after saving the replay
# that demonstrated the violation as a regression case; runs the repository's
# unedited suite and the replay afterwards.
set -e
export GOFLAGS=-mod=mod GOPROXY=off GOSUMDB=off GOTOOLCHAIN=local
patch="$(realpath "$1")"; fid="$2"; replay="$3"; [ -n "$replay" ] && replay="$(realpath "$replay")"
cd /verif
if [ -n "$replay" ]; then
  mkdir -p regress
  cp "$replay" "regress/$fid.json"
  if ./check replay "regress/$fid.json" >/tmp/applyfix.out 2>&1; then
    echo "replay does not fail before the fix - refusing"; tail -5 /tmp/applyfix.out; exit 1
  fi
fi
git -C /repo am -q "$patch"
( cd /repo && go build ./... && go test -vet=off -count=1 -timeout 300s ./... 2>&1 | grep -v "^ok\|no test files" | grep -v "TestBatchWriteItemWithFailingDatabase" | head -20 ) || true
if [ -n "$replay" ]; then
  ./check replay "regress/$fid.json" | tail -2
fi
git -C /repo log --oneline | head -1
git -C /repo status --short | head
